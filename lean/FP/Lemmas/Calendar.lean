/- Lemmas about the calendar model: the day-number bijection. Core Lean only. -/
import FP.Model.Calendar
namespace FP.Lemmas.Calendar
open FP.Model.Text FP.Model.Calendar

theorem daysIn_le (m y : Int) : daysIn m y ≤ 31 := by
  unfold daysIn; split <;> (try split) <;> omega

theorem yearStart_bounds (y : Int) : 146097 * y - 699 ≤ 400 * yearStart y ∧ 400 * yearStart y ≤ 146097 * y + 396 := by
  unfold yearStart; omega
theorem yearStart_step (y : Int) : 365 ≤ yearStart (y + 1) - yearStart y ∧ yearStart (y + 1) - yearStart y ≤ 366 := by
  unfold yearStart; omega

theorem yearOf_spec (z : Int) : yearStart (yearOf z) ≤ z ∧ z < yearStart (yearOf z + 1) := by
  unfold yearOf
  have hy0 : 146097 * ((400 * z) / 146097) ≤ 400 * z ∧ 400 * z < 146097 * ((400 * z) / 146097) + 146097 := by omega
  generalize (400 * z) / 146097 = y0 at *
  have bm := yearStart_bounds (y0 - 1)
  have b0 := yearStart_bounds y0
  have b1 := yearStart_bounds (y0 + 1)
  have b2 := yearStart_bounds (y0 + 2)
  have s0 := yearStart_step (y0 - 1)
  have s1 := yearStart_step y0
  have s2 := yearStart_step (y0 + 1)
  have e1 : y0 - 1 + 1 = y0 := by omega
  have e2 : y0 + 1 + 1 = y0 + 2 := by omega
  rw [e1] at s0
  rw [e2] at s2
  simp only []
  by_cases h1 : yearStart (y0 + 1) ≤ z
  · simp only [h1, if_true]
    by_cases h2 : z < yearStart (y0 + 1)
    · omega
    · simp only [h2, if_false]; rw [e2]; omega
  · simp only [h1, if_false]
    by_cases h2 : z < yearStart y0
    · simp only [h2, if_true]; rw [e1]; omega
    · simp only [h2, if_false]; omega

theorem yearStart_mono (a b : Int) (hab : a < b) : yearStart a + 365 * (b - a) ≤ yearStart b := by
  unfold yearStart; omega

/-- the year is determined by the bracket -/
theorem yearOf_unique (z y : Int) (h : yearStart y ≤ z ∧ z < yearStart (y + 1)) : yearOf z = y := by
  have hs := yearOf_spec z
  generalize yearOf z = y' at hs
  rcases Int.lt_trichotomy y' y with hlt | heq | hgt
  · have := yearStart_mono (y' + 1) y
    by_cases h1 : y' + 1 < y
    · have := this h1; omega
    · have : y' + 1 = y := by omega
      rw [this] at hs; omega
  · exact heq
  · have := yearStart_mono (y + 1) y'
    by_cases h1 : y + 1 < y'
    · have := this h1; omega
    · have : y + 1 = y' := by omega
      rw [← this] at hs; omega

/-- the length of the March-based year y is 366 exactly when the civil year y+1 is a leap year -/
theorem yearLength (y : Int) : yearStart (y + 1) - yearStart y = if isLeap (y + 1) then 366 else 365 := by
  unfold yearStart isLeap
  by_cases h4 : (y + 1) % 4 = 0 <;> by_cases h100 : (y + 1) % 100 = 0 <;> by_cases h400 : (y + 1) % 400 = 0 <;>
    simp [h4, h100, h400] <;> omega

theorem mp_cases (doy : Int) (h0 : 0 ≤ doy) (h1 : doy ≤ 365) :
    let mp := (5 * doy + 2) / 153
    mp = 0 ∨ mp = 1 ∨ mp = 2 ∨ mp = 3 ∨ mp = 4 ∨ mp = 5 ∨ mp = 6 ∨ mp = 7 ∨ mp = 8 ∨ mp = 9 ∨ mp = 10 ∨ mp = 11 := by
  simp only []; omega

theorem days_civilOfDoy (y doy : Int) (h0 : 0 ≤ doy) (h1 : doy ≤ 365) :
    daysFromCivil (civilOfDoy y doy).1 (civilOfDoy y doy).2.1 (civilOfDoy y doy).2.2 = yearStart y + doy := by
  have hc := mp_cases doy h0 h1
  simp only [civilOfDoy, daysFromCivil, monthStart] at hc ⊢
  rcases hc with h | h | h | h | h | h | h | h | h | h | h | h <;> simp only [h] <;> simp <;> omega

theorem days_civilOfYear (z y : Int) (hs : yearStart y ≤ z ∧ z < yearStart (y + 1)) :
    daysFromCivil (civilOfYear z y).1 (civilOfYear z y).2.1 (civilOfYear z y).2.2 = z := by
  have hl := yearStart_step y
  unfold civilOfYear
  rw [days_civilOfDoy y (z - yearStart y) (by omega) (by omega)]
  omega

/-- every day number is the day number of the civil date computed for it -/
theorem days_civil (z : Int) : daysFromCivil (civilFromDays z).1 (civilFromDays z).2.1 (civilFromDays z).2.2 = z :=
  days_civilOfYear z (yearOf z) (yearOf_spec z)

theorem civilOfDoy_valid (y doy : Int) (h0 : 0 ≤ doy) (h1 : doy < if isLeap (y + 1) then 366 else 365) :
    1 ≤ (civilOfDoy y doy).2.1 ∧ (civilOfDoy y doy).2.1 ≤ 12 ∧ 1 ≤ (civilOfDoy y doy).2.2 ∧
    (civilOfDoy y doy).2.2 ≤ daysIn (civilOfDoy y doy).2.1 (civilOfDoy y doy).1 := by
  have h365 : doy ≤ 365 := by split at h1 <;> omega
  have hc := mp_cases doy h0 h365
  simp only [civilOfDoy, monthStart, daysIn] at hc ⊢
  by_cases hleap : isLeap (y + 1) = true
  · simp only [hleap, if_true] at h1
    rcases hc with h | h | h | h | h | h | h | h | h | h | h | h <;> simp only [h] <;> simp [hleap] <;> omega
  · have hleap' : isLeap (y + 1) = false := by simpa using hleap
    simp only [hleap', Bool.false_eq_true, if_false] at h1
    rcases hc with h | h | h | h | h | h | h | h | h | h | h | h <;> simp only [h] <;> simp [hleap'] <;> omega

theorem civilOfYear_valid (z y : Int) (hs : yearStart y ≤ z ∧ z < yearStart (y + 1)) :
    1 ≤ (civilOfYear z y).2.1 ∧ (civilOfYear z y).2.1 ≤ 12 ∧ 1 ≤ (civilOfYear z y).2.2 ∧
    (civilOfYear z y).2.2 ≤ daysIn (civilOfYear z y).2.1 (civilOfYear z y).1 := by
  have hl := yearLength y
  unfold civilOfYear
  apply civilOfDoy_valid
  · omega
  · split <;> rename_i hleap <;> simp [hleap] at hl <;> omega

/-- the civil date computed for a day number is a calendar date -/
theorem civil_valid (z : Int) :
    1 ≤ (civilFromDays z).2.1 ∧ (civilFromDays z).2.1 ≤ 12 ∧ 1 ≤ (civilFromDays z).2.2 ∧
    (civilFromDays z).2.2 ≤ daysIn (civilFromDays z).2.1 (civilFromDays z).1 :=
  civilOfYear_valid z (yearOf z) (yearOf_spec z)

theorem civilFromDays_of_doy (y' doy : Int) (h0 : 0 ≤ doy) (h1 : doy < (if isLeap (y' + 1) then 366 else 365)) :
    civilFromDays (yearStart y' + doy) = civilOfDoy y' doy := by
  have hl := yearLength y'
  have : yearOf (yearStart y' + doy) = y' := by
    apply yearOf_unique
    split at h1 <;> rename_i hleap <;> simp [hleap] at hl <;> omega
  unfold civilFromDays civilOfYear
  rw [this]
  congr 1; omega

/-- day d of the month with March-based index mp -/
theorem civilOfDoy_month (y' mp d : Int) (hmp : 0 ≤ mp ∧ mp ≤ 11) (hd : 1 ≤ d ∧ d ≤ monthStart (mp + 1) - monthStart mp) :
    civilOfDoy y' (monthStart mp + d - 1) =
      (if (if mp < 10 then mp + 3 else mp - 9) ≤ 2 then y' + 1 else y', (if mp < 10 then mp + 3 else mp - 9), d) := by
  have hq : (5 * (monthStart mp + d - 1) + 2) / 153 = mp := by unfold monthStart at *; omega
  simp only [civilOfDoy, hq]
  congr 2
  omega

/-- every calendar date is the civil date of its day number -/
theorem civil_days (y m d : Int) (hm : 1 ≤ m ∧ m ≤ 12) (hd : 1 ≤ d ∧ d ≤ daysIn m y) :
    civilFromDays (daysFromCivil y m d) = (y, m, d) := by
  have h31 := daysIn_le m y
  by_cases hm2 : m ≤ 2
  · -- January / February belong to the March-based year y - 1
    have e : y - 1 + 1 = y := by omega
    have hlen : monthStart (m + 9) + d - 1 < (if isLeap (y - 1 + 1) then 366 else 365) := by
      rw [e]
      unfold daysIn at hd
      have hc : m = 1 ∨ m = 2 := by omega
      rcases hc with h | h <;> subst h <;> unfold monthStart <;>
        (by_cases hl : isLeap y = true <;> simp [hl] at hd ⊢ <;> omega)
    have hmonth : d ≤ monthStart (m + 9 + 1) - monthStart (m + 9) := by
      unfold daysIn at hd
      have hc : m = 1 ∨ m = 2 := by omega
      rcases hc with h | h <;> subst h <;> unfold monthStart <;>
        (by_cases hl : isLeap y = true <;> simp [hl] at hd ⊢ <;> omega)
    have h0 : 0 ≤ monthStart (m + 9) + d - 1 := by unfold monthStart; omega
    simp only [daysFromCivil, hm2, if_true]
    rw [show yearStart (y - 1) + monthStart (m + 9) + d - 1 = yearStart (y - 1) + (monthStart (m + 9) + d - 1) by omega,
      civilFromDays_of_doy (y - 1) _ h0 hlen, civilOfDoy_month (y - 1) (m + 9) d (by omega) ⟨hd.1, hmonth⟩]
    have hlt : ¬ (m + 9 < 10) := by omega
    simp only [hlt, if_false]
    have : m + 9 - 9 = m := by omega
    simp [this, hm2, e]
  · have hlen : monthStart (m - 3) + d - 1 < (if isLeap (y + 1) then 366 else 365) := by
      unfold daysIn at hd
      have hc : m = 3 ∨ m = 4 ∨ m = 5 ∨ m = 6 ∨ m = 7 ∨ m = 8 ∨ m = 9 ∨ m = 10 ∨ m = 11 ∨ m = 12 := by omega
      rcases hc with h | h | h | h | h | h | h | h | h | h <;> subst h <;> unfold monthStart <;> simp at hd ⊢ <;>
        (split <;> omega)
    have hmonth : d ≤ monthStart (m - 3 + 1) - monthStart (m - 3) := by
      unfold daysIn at hd
      have hc : m = 3 ∨ m = 4 ∨ m = 5 ∨ m = 6 ∨ m = 7 ∨ m = 8 ∨ m = 9 ∨ m = 10 ∨ m = 11 ∨ m = 12 := by omega
      rcases hc with h | h | h | h | h | h | h | h | h | h <;> subst h <;> unfold monthStart <;> simp at hd ⊢ <;> omega
    have h0 : 0 ≤ monthStart (m - 3) + d - 1 := by unfold monthStart; omega
    simp only [daysFromCivil, hm2, if_false]
    rw [show yearStart y + monthStart (m - 3) + d - 1 = yearStart y + (monthStart (m - 3) + d - 1) by omega,
      civilFromDays_of_doy y _ h0 hlen, civilOfDoy_month y (m - 3) d (by omega) ⟨hd.1, hmonth⟩]
    have hlt : m - 3 < 10 := by omega
    simp only [hlt, if_true]
    have : m - 3 + 3 = m := by omega
    simp [this, hm2]

end FP.Lemmas.Calendar
