/- Helper lemmas for the "never traps" half of C08/C01 about FP.Model.Arith.  Core Lean only. -/
import FP.Model.Arith
namespace FP.Lemmas
open FP FP.Go FP.Model

theorem mapErr_panic (x : Res Val) : mapArithErr x = Res.panic ↔ x = .panic := by
  unfold mapArithErr
  cases x with
  | ok v => simp
  | panic => simp
  | err e => simp; split <;> simp_all

theorem liftInt_ne_panic (r : G (Except String Int)) (h : r.isSome) : liftInt r ≠ .panic := by
  cases r with
  | none => simp at h
  | some x => cases x <;> simp [liftInt]

theorem quoRem_some (a b : Dec) (h : b.coeff ≠ 0) : (Dec.quoRem a b 0).isSome := by
  simp [Dec.quoRem, h]
theorem divRound_some (a b : Dec) (p : Int) (h : b.coeff ≠ 0) : (Dec.divRound a b p).isSome := by
  simp [Dec.divRound, Dec.quoRem, h]

end FP.Lemmas
