/-
  FP.Go — the small vocabulary into which `tools/gen` translates straight-line Go.

  `G α := Option α`, where `none` stands for a Go run-time panic (index out of range,
  integer division by zero, failed type assertion).  Nothing is totalised with a default:
  a Go trap is `none`, and "never panics" is a theorem `(f x).isSome`, not a convention.
  Core Lean only (this file is linked into the driver executable).
-/
namespace FP.Go

abbrev G (α : Type) := Option α

/-- Go's short-circuit `&&` on possibly-trapping operands. -/
def gand (a b : G Bool) : G Bool :=
  match a with
  | some true => b
  | some false => some false
  | none => none

/-- Go's short-circuit `||`. -/
def gor (a b : G Bool) : G Bool :=
  match a with
  | some true => some true
  | some false => b
  | none => none

def gnot (a : G Bool) : G Bool := a.map (!·)

/-- `x[i]` on a slice: traps when out of range. -/
def gidx {α : Type} (x : List α) (i : Int) : G α :=
  if i < 0 then none else x[i.toNat]?

/-- two's-complement wrap to `n` bits, signed -/
def wrapS (bits : Nat) (x : Int) : Int :=
  (x + 2 ^ (bits - 1)) % 2 ^ bits - 2 ^ (bits - 1)

/-- wrap to `n` bits, unsigned -/
def wrapU (bits : Nat) (x : Int) : Int := x % 2 ^ bits

def wrap32 (x : Int) : Int := (x + 2147483648) % 4294967296 - 2147483648
def wrap64 (x : Int) : Int := (x + 9223372036854775808) % 18446744073709551616 - 9223372036854775808
def wrapU64 (x : Int) : Int := x % 18446744073709551616

def minInt32 : Int := -2147483648
def maxInt32 : Int := 2147483647
def inInt32 (x : Int) : Prop := minInt32 ≤ x ∧ x ≤ maxInt32
instance (x : Int) : Decidable (inInt32 x) := by unfold inInt32; infer_instance

/-- Go `a / b` on int32: traps on zero, truncates toward zero, wraps (MinInt32 / -1). -/
def gdiv32 (a b : Int) : G Int := if b = 0 then none else some (wrap32 (Int.tdiv a b))
/-- Go `a % b` on int32: traps on zero; sign follows the dividend. -/
def gmod32 (a b : Int) : G Int := if b = 0 then none else some (wrap32 (Int.tmod a b))

end FP.Go

namespace FP.Go
theorem gand_some (a : Bool) (b : G Bool) : gand (some a) b = if a then b else some false := by
  cases a <;> rfl
theorem gor_some (a : Bool) (b : G Bool) : gor (some a) b = if a then some true else b := by
  cases a <;> rfl
@[simp] theorem gidx_cons_zero {α : Type} (a : α) (l : List α) : gidx (a :: l) 0 = some a := by
  simp [gidx]
@[simp] theorem gidx_nil {α : Type} (i : Int) : gidx ([] : List α) i = none := by
  simp [gidx]
end FP.Go
