/-
  C14 — string functions operate on characters and are mutually consistent.
  The model works on `List Char` (Unicode scalar values); the correspondence compares it with the
  real functions on strings over a mixed 1–4-byte alphabet, so byte/character confusion in the
  code shows up as a disagreement.
-/
import FP.Model.Strings
import FP.Lemmas.Case
namespace FP.Props.C14
open FP FP.Model

/-- `s.toChars().count() = s.length()` -/
theorem toChars_count_eq_length (s : Str) : ((toChars s).length : Int) = lengthFn s := by
  simp [toChars, lengthFn]

theorem toChars_concat (s : Str) : (toChars s).flatten = s := by
  induction s with
  | nil => rfl
  | cons c cs ih => simp [toChars] at ih ⊢; exact ih

/-- out-of-range positions yield empty -/
theorem substring_out_of_range (s : Str) (start : Int) (len : Option Int) (h : start < 0 ∨ start ≥ s.length) :
    substring s start len = none := by
  simp [substring, h]

/-- the string is the concatenation of its first k characters and the rest:
    `s.substring(0,k) & s.substring(k) = s` (an empty result counts as '' under `&`) -/
theorem substring_split (s : Str) (k : Nat) (hk : k ≤ s.length) :
    (substring s 0 (some k)).getD [] ++ (substring s k none).getD [] = s := by
  unfold substring
  by_cases hs : s = []
  · subst hs; simp
  · have hpos : 0 < s.length := List.length_pos_iff.mpr hs
    have h0 : ¬ ((0 : Int) < 0 ∨ (0 : Int) ≥ ↑s.length) := by omega
    simp only [h0, if_false, Int.toNat_zero, List.drop_zero]
    by_cases hke : k = s.length
    · subst hke
      have h1 : ¬ ((↑s.length : Int) > -1 ∧ (0 : Int) + ↑s.length < ↑s.length) := by omega
      have h2 : ((↑s.length : Int) < 0 ∨ (↑s.length : Int) ≥ ↑s.length) := by omega
      simp [h1, h2]
    · have hlt : k < s.length := by omega
      have h1 : ((k : Int) > -1 ∧ (0 : Int) + ↑k < ↑s.length) := by omega
      have h2 : ¬ ((k : Int) < 0 ∨ (k : Int) ≥ ↑s.length) := by omega
      have h3 : ¬ (s.length ≤ k) := by omega
      have h4 : ¬ ((k : Int) < 0) := by omega
      simp [h1, h2, h3, h4, hlt, List.take_append_drop]

/-- a returned substring is what the positions say: `length` characters from `start` -/
theorem substring_spec (s : Str) (start len : Nat) (h : start + len < s.length) :
    substring s start (some len) = some ((s.drop start).take len) := by
  unfold substring
  have h0 : ¬ ((start : Int) < 0 ∨ (start : Int) ≥ ↑s.length) := by omega
  have h1 : ((len : Int) > -1 ∧ (start : Int) + ↑len < ↑s.length) := by omega
  simp [h0, h1]
  omega

theorem isPrefix_append (t u : Str) : isPrefix t (t ++ u) = true := by
  induction t with
  | nil => rfl
  | cons c cs ih => simp [isPrefix, ih]

theorem isPrefix_iff (t s : Str) : isPrefix t s = true ↔ ∃ u, s = t ++ u := by
  induction t generalizing s with
  | nil => simp [isPrefix]
  | cons c cs ih =>
    cases s with
    | nil => simp [isPrefix]
    | cons d ds =>
      simp only [isPrefix, Bool.and_eq_true, beq_iff_eq, List.cons_append, List.cons.injEq]
      constructor
      · rintro ⟨rfl, h⟩; obtain ⟨u, hu⟩ := (ih ds).mp h; exact ⟨u, rfl, hu⟩
      · rintro ⟨u, rfl, hu⟩; exact ⟨rfl, (ih ds).mpr ⟨u, hu⟩⟩

/-- `startsWith` is "is a prefix of" on characters -/
theorem startsWith_spec (s t : Str) : startsWith s t = true ↔ ∃ u, s = t ++ u := isPrefix_iff t s

/-- `endsWith` is "is a suffix of" -/
theorem endsWith_spec (s t : Str) : endsWith s t = true ↔ ∃ u, s = u ++ t := by
  unfold endsWith
  rw [isPrefix_iff]
  constructor
  · rintro ⟨u, hu⟩
    refine ⟨u.reverse, ?_⟩
    have := congrArg List.reverse hu
    simpa using this
  · rintro ⟨u, rfl⟩
    exact ⟨u.reverse, by simp⟩

theorem indexOfAux_sound (t s : Str) (i0 : Nat) (i : Int) (h : indexOfAux t s i0 = i) (hi : i ≥ 0) :
    i ≥ i0 ∧ (i - i0).toNat ≤ s.length ∧ isPrefix t (s.drop (i - i0).toNat) = true := by
  induction s generalizing i0 with
  | nil =>
    unfold indexOfAux at h
    by_cases ht : t.isEmpty
    · simp [ht] at h; subst h
      have : t = [] := List.isEmpty_iff.mp ht
      subst this; simp [isPrefix]
    · simp [ht] at h; omega
  | cons c cs ih =>
    unfold indexOfAux at h
    by_cases hp : isPrefix t (c :: cs) = true
    · simp [hp] at h; subst h; simp [hp]
    · simp [hp] at h
      have := ih (i0 + 1) h
      have e : (i - ↑i0).toNat = (i - ↑(i0 + 1)).toNat + 1 := by omega
      refine ⟨by omega, ?_, ?_⟩
      · rw [e]; simp; omega
      · rw [e]; simpa using this.2.2

/-- `s.indexOf(t) = i ≥ 0` implies `s.substring(i).startsWith(t)` -/
theorem indexOf_sound (s t : Str) (i : Int) (h : indexOf s t = i) (hi : i ≥ 0) :
    isPrefix t (s.drop i.toNat) = true := by
  have := indexOfAux_sound t s 0 i h hi
  simpa using this.2.2

/-- `s.contains(t)` iff `s.indexOf(t) ≥ 0` (by definition of the model, which the
    correspondence ties to `strings.Contains` / `strings.Index`) -/
theorem contains_iff_indexOf (s t : Str) : containsStr s t = true ↔ indexOf s t ≥ 0 := by
  simp [containsStr]

/-- no occurrence ⇒ `replace` leaves the string alone -/
theorem replaceGo_no_match (p r : Str) (s : Str) (h : ∀ k, isPrefix p (s.drop k) = false ∨ s.drop k = []) :
    replaceGo p r 0 s = s := by
  induction s with
  | nil => rfl
  | cons c cs ih =>
    unfold replaceGo
    have h0 := h 0
    simp at h0
    simp [h0]
    apply ih
    intro k
    have := h (k + 1)
    simpa using this

theorem replaceGo_skip (p r : Str) (w v : Str) : replaceGo p r w.length (w ++ v) = replaceGo p r 0 v := by
  induction w with
  | nil => rfl
  | cons x xs ih => simp [replaceGo, ih]

/-- replacing a (non-empty) pattern by itself is the identity -/
theorem replace_self (p : Str) (hp : p ≠ []) (s : Str) : replaceGo p p 0 s = s := by
  have key : ∀ n (s : Str), s.length ≤ n → replaceGo p p 0 s = s := by
    intro n
    induction n with
    | zero => intro s hs; have : s = [] := List.length_eq_zero_iff.mp (by omega); subst this; rfl
    | succ n ih =>
      intro s hs
      cases s with
      | nil => rfl
      | cons c cs =>
        unfold replaceGo
        by_cases hpre : isPrefix p (c :: cs) = true
        · simp only [hpre, if_true]
          obtain ⟨u, hu⟩ := (isPrefix_iff p (c :: cs)).mp hpre
          cases p with
          | nil => exact absurd rfl hp
          | cons q qs =>
            simp only [List.cons_append, List.cons.injEq] at hu
            obtain ⟨hq, hcs⟩ := hu
            subst hcs
            simp only [List.length_cons, Nat.add_sub_cancel]
            rw [replaceGo_skip (q :: qs) (q :: qs) qs u]
            have hl : u.length ≤ n := by simp at hs; omega
            rw [ih u hl, hq]
            simp
        · simp only [hpre, Bool.false_eq_true, if_false]
          have hl : cs.length ≤ n := by simp at hs; omega
          rw [ih cs hl]
  exact key s.length s (Nat.le_refl _)

/-! ### `upper()` / `lower()` in the assembled evaluator (FP.Model.Eval), receivers within ASCII.
    Receivers with a character beyond U+007F are outside this model (`unmodelled`); for them the
    harness compares the implementation with per-character Unicode case mapping (law C14/case-map). -/

section Case
open FP.Model.Eval FP.Lemmas.Case

/-- case mapping keeps the number of characters, on whole expressions: `s.upper().length() = s.length()` -/
theorem case_keeps_length (f : Char → Char) (s : Str) : lengthFn (s.map f) = lengthFn s := by
  simp [lengthFn]

/-- `upper()` is idempotent and `lower()` undoes nothing `upper()` did that `lower()` would not do itself:
    `s.upper().upper() = s.upper()`, `s.lower().lower() = s.lower()`, `s.upper().lower() = s.lower()` — for every string -/
theorem case_maps_compose (s : Str) :
    (s.map asciiUpper).map asciiUpper = s.map asciiUpper ∧
    (s.map asciiLower).map asciiLower = s.map asciiLower ∧
    (s.map asciiUpper).map asciiLower = s.map asciiLower := by
  refine ⟨?_, ?_, ?_⟩ <;> simp [List.map_map, Function.comp_def, asciiUpper_idem, asciiLower_idem, asciiLower_upper]

/-- the result of a case mapping on an ASCII string is an ASCII string (so a chain of `upper()` / `lower()`
    calls never leaves the modelled fragment) -/
theorem case_stays_ascii (s : Str) (h : isAscii s = true) :
    isAscii (s.map asciiUpper) = true ∧ isAscii (s.map asciiLower) = true := by
  simp only [isAscii, List.all_eq_true, decide_eq_true_eq, List.mem_map, forall_exists_index, and_imp] at h ⊢
  exact ⟨fun c x hx hc => hc ▸ (ascii_stays_ascii x (h x hx)).1, fun c x hx hc => hc ▸ (ascii_stays_ascii x (h x hx)).2⟩

/-- cardinality on whole expressions: no item gives no item, several items are an error — whatever follows -/
theorem expr_case_cardinality (env : Env) (n : String) (hn : n = "upper" ∨ n = "lower") :
    eval env (.fn n .argNil) [] = .ok [] ∧ ∀ a b r, eval env (.fn n .argNil) (a :: b :: r) = .err "not-singleton" := by
  rcases hn with rfl | rfl <;> simp [eval, isClockFn, apply0, caseOn]

example : eval [] (.fn "upper" .argNil) [strVal "a1-z{".toList] = .ok [strVal "A1-Z{".toList] := by decide +kernel

end Case

/-! ### `join([separator])` (experimental table) in the assembled evaluator -/

section Join
open FP.Model.Eval

/-- `join('')` / `join()` is concatenation -/
theorem joinBytes_nil_delim (l : List (List UInt8)) : joinBytes [] l = l.flatten := by
  induction l with
  | nil => rfl
  | cons x rest ih =>
    cases rest with
    | nil => simp [joinBytes]
    | cons y r => simp [joinBytes, ih]

/-- one item is joined to itself, whatever the separator is -/
theorem join_single (d x : List UInt8) : joinOn d [.str x] = .ok [.str x] := by
  simp [joinOn, strBytes?, joinBytes]

/-- an item that is not a String is an error, never skipped and never rendered -/
theorem join_non_string_is_error (d : List UInt8) (input : List Val) (v : Val) (hv : v ∈ input) (hs : strBytes? v = none) :
    joinOn d input = .err "not-a-string" := by
  unfold joinOn
  cases input with
  | nil => simp at hv
  | cons a r =>
    have : ((a :: r).all fun v => (strBytes? v).isSome) = false := by
      rw [List.all_eq_false]
      exact ⟨v, hv, by simp [hs]⟩
    simp [this]

/-- a non-empty collection of Strings is one String: the texts with the separator between them -/
theorem join_strings (d : List UInt8) (l : List (List UInt8)) (h : l ≠ []) :
    joinOn d (l.map .str) = .ok [.str (joinBytes d l)] := by
  unfold joinOn
  cases l with
  | nil => exact absurd rfl h
  | cons a r =>
    have h1 : ((Val.str a :: r.map Val.str).all fun v => (strBytes? v).isSome) = true := by
      simp [strBytes?]
    have h2 : (Val.str a :: r.map Val.str).filterMap strBytes? = a :: r := by
      have : ∀ r : List (List UInt8), List.filterMap (strBytes? ∘ Val.str) r = r := by
        intro r; induction r with
        | nil => rfl
        | cons x xs ih => simp [strBytes?, ih]
      simp [strBytes?, List.filterMap_map, this]
    simp only [List.map_cons, h1, if_true, h2]


/-- `s.toChars().join()` gives the characters back in order (on the character lists of FP.Model.Strings) -/
theorem toChars_join (s : Str) : (toChars s).flatten = s := toChars_concat s

example : joinOn [44] [.str [97], .str [98], .str []] = .ok [.str [97, 44, 98, 44]] := by decide

end Join

example : substring "héllo".toList 1 (some 1) = some "é".toList := by decide
example : indexOf "日本語".toList "語".toList = 2 := by decide
example : replaceAll "abc".toList [] "-".toList = "-a-b-c-".toList := by decide
example : lengthFn "é😀".toList = 2 := by decide

end FP.Props.C14
