/-
  C10 — filtering, projection, subsetting and set functions obey the collection algebra.
  Theorems are generic in the item type (so they hold for FHIR elements by identity and for
  System values alike) and, for the set functions, in the item equality `eq`.
-/
import FP.Model.Coll
import FP.Model.Eval
import FP.Gen.ArgEval
namespace FP.Props.C10
open FP FP.Model

variable {α : Type}

/-- a criterion that evaluates, on every item, to empty or a single item -/
def Simple (crit : α → Res (List BItem)) (c : List α) : Prop :=
  ∀ x ∈ c, ∃ out, crit x = .ok out ∧ out.length ≤ 1

def truthy (crit : α → Res (List BItem)) (x : α) : Bool :=
  match crit x with
  | .ok [.bool true] => true
  | .ok [.other] => true
  | _ => false

/-- `c.where(p)` is exactly the order-preserving sub-collection of items for which p is true. -/
theorem where_eq_filter (crit : α → Res (List BItem)) (c : List α) (h : Simple crit c) :
    whereFn crit c = .ok (c.filter (truthy crit)) := by
  induction c with
  | nil => rfl
  | cons x xs ih =>
    have hx := h x (List.mem_cons_self)
    have hxs : Simple crit xs := fun y hy => h y (List.mem_cons_of_mem _ hy)
    obtain ⟨out, ho, hl⟩ := hx
    unfold whereFn
    rw [ho, ih hxs]
    match out, hl with
    | [], _ => simp [truthy, ho]
    | [.bool true], _ => simp [truthy, ho, toSingletonBoolean]
    | [.bool false], _ => simp [truthy, ho, toSingletonBoolean]
    | [.other], _ => simp [truthy, ho, toSingletonBoolean]
    | _ :: _ :: _, hl => simp at hl

/-- a criterion yielding more than one item is an error, never silently its first item -/
theorem where_multi_item_error (crit : α → Res (List BItem)) (x : α) (xs : List α) (a b : BItem) (r : List BItem)
    (h : crit x = .ok (a :: b :: r)) : whereFn crit (x :: xs) = .err "not-singleton" := by
  unfold whereFn; rw [h]; simp [toSingletonBoolean]

/-- `exists(p)` equals `where(p).exists()`. -/
theorem exists_eq_where_exists (crit : α → Res (List BItem)) (c : List α) :
    existsFn crit c = (whereFn crit c).bind (fun r => .ok (!r.isEmpty)) := by
  unfold existsFn; cases whereFn crit c <;> rfl

/-- `all(p)` is true iff p is true for every item. -/
theorem all_iff_forall (crit : α → Res (List BItem)) (c : List α) (h : Simple crit c) :
    allFn crit c = .ok (c.all (truthy crit)) := by
  induction c with
  | nil => rfl
  | cons x xs ih =>
    have hx := h x (List.mem_cons_self)
    have hxs : Simple crit xs := fun y hy => h y (List.mem_cons_of_mem _ hy)
    obtain ⟨out, ho, hl⟩ := hx
    unfold allFn
    rw [ho]
    match out, hl with
    | [], _ => simp [truthy, ho, Model.toBool]
    | [.bool true], _ => simp [truthy, ho, Model.toBool, ih hxs]
    | [.bool false], _ => simp [truthy, ho, Model.toBool]
    | [.other], _ => simp [truthy, ho, Model.toBool, ih hxs]
    | _ :: _ :: _, hl => simp at hl

/-- `c.select(e)` is the in-order concatenation of e over the items. -/
theorem select_eq_flatMap {β : Type} (proj : α → Res (List β)) (f : α → List β) (c : List α)
    (h : ∀ x ∈ c, proj x = .ok (f x)) : selectFn proj c = .ok (c.flatMap f) := by
  induction c with
  | nil => rfl
  | cons x xs ih =>
    unfold selectFn
    rw [h x (List.mem_cons_self), ih (fun y hy => h y (List.mem_cons_of_mem _ hy))]
    simp [List.flatMap_cons]

/-- `empty()` equals `count() = 0`. -/
theorem empty_iff_count_zero (c : List α) : emptyFn c = true ↔ countFn c = 0 := by
  cases c with
  | nil => simp [emptyFn, countFn]
  | cons x xs => simp [emptyFn, countFn]; omega

/-! ### subsetting is positional -/

theorem first_eq_index0 (c : List α) : firstFn c = indexFn 0 c := by
  cases c <;> simp [firstFn, indexFn]
theorem first_eq_take1 (c : List α) : firstFn c = takeFn 1 c := by
  rcases c with _ | ⟨x, _ | ⟨y, ys⟩⟩
  · simp [firstFn, takeFn]
  · simp [firstFn, takeFn]
  · have : ¬ ((1 : Int) ≥ ((x :: y :: ys).length : Int)) := by simp [List.length]; omega
    simp only [firstFn, takeFn, List.isEmpty_cons, Bool.false_eq_true, if_false, this]
    simp
theorem tail_eq_skip1 (c : List α) : tailFn c = skipFn 1 c := by
  rcases c with _ | ⟨x, _ | ⟨y, ys⟩⟩
  · simp [tailFn, skipFn]
  · simp [tailFn, skipFn]
  · have : ¬ ((1 : Int) ≥ ((x :: y :: ys).length : Int)) := by simp [List.length]; omega
    simp only [tailFn, skipFn, List.isEmpty_cons, Bool.false_eq_true, if_false, this]
    simp

theorem take_skip_partition (n : Int) (c : List α) : takeFn n c ++ skipFn n c = c := by
  unfold takeFn skipFn
  cases c with
  | nil => simp
  | cons x xs =>
    simp only [List.isEmpty_cons, Bool.false_eq_true, if_false]
    by_cases h1 : n ≤ 0
    · simp [h1]
    · by_cases h2 : n ≥ ((x :: xs).length : Int)
      · simp only [h1, h2, if_true, if_false, List.append_nil]
      · simp only [h1, h2, if_false, List.take_append_drop]

theorem last_eq_skip_pred (c : List α) : lastFn c = skipFn (countFn c - 1) c := by
  cases hc : c.getLast? with
  | none =>
    have : c = [] := List.getLast?_eq_none_iff.mp hc
    subst this; simp [lastFn, skipFn, countFn]
  | some z =>
    obtain ⟨pre, hpre⟩ := List.getLast?_eq_some_iff.mp hc
    subst hpre
    have hlen : ((pre ++ [z]).length : Int) - 1 = pre.length := by simp
    have hlen2 : ((pre ++ [z]).length : Int) = pre.length + 1 := by simp
    simp only [lastFn, hc, skipFn, countFn, hlen]
    have hne : (pre ++ [z]).isEmpty = false := by simp
    simp only [hne, Bool.false_eq_true, if_false, hlen2]
    by_cases hp : pre = []
    · subst hp; simp
    · have h0 : ¬ ((pre.length : Int) ≤ 0) := by
        have : pre.length ≠ 0 := fun h => hp (List.length_eq_zero_iff.mp h)
        omega
      have h1 : ¬ ((pre.length : Int) ≥ ↑pre.length + 1) := by omega
      simp only [h0, h1, if_false, Int.toNat_natCast]
      simp

/-- out-of-range indexes give empty, in-range ones exactly that item -/
theorem index_out_of_range (i : Int) (c : List α) (h : i < 0 ∨ i ≥ c.length) : indexFn i c = [] := by
  unfold indexFn
  have h' : (i ≥ ↑c.length ∨ i < 0) := by omega
  simp [h']
theorem index_in_range (i : Nat) (c : List α) (h : i < c.length) : indexFn i c = [c[i]] := by
  unfold indexFn
  have h' : ¬ ((i : Int) ≥ ↑c.length ∨ (i : Int) < 0) := by omega
  simp [h', List.getElem?_eq_getElem h]
  exact h

/-! ### set functions, for any item equality -/

theorem distinctAux_sub (eq : α → α → Bool) (acc c : List α) :
    ∀ x ∈ distinctAux eq acc c, x ∈ acc ∨ x ∈ c := by
  induction c generalizing acc with
  | nil => intro x hx; simp [distinctAux] at hx; exact Or.inl hx
  | cons y ys ih =>
    intro x hx
    unfold distinctAux at hx
    split at hx
    · rcases ih acc x hx with h | h
      · exact Or.inl h
      · exact Or.inr (List.mem_cons_of_mem _ h)
    · rcases ih (y :: acc) x hx with h | h
      · rcases List.mem_cons.mp h with h | h
        · exact Or.inr (by rw [h]; exact List.mem_cons_self)
        · exact Or.inl h
      · exact Or.inr (List.mem_cons_of_mem _ h)

/-- `distinct()` never invents items: every result item is an input item -/
theorem distinct_subset (eq : α → α → Bool) (c : List α) : ∀ x ∈ distinctFn eq c, x ∈ c := by
  intro x hx
  rcases distinctAux_sub eq [] c x hx with h | h
  · simp at h
  · exact h

/-- every input item is represented by an equal kept item (for an equivalence `eq`) -/
theorem distinctAux_covers (eq : α → α → Bool) (hr : ∀ x, eq x x = true)
    (ht : ∀ a b c, eq a b = true → eq b c = true → eq a c = true) (acc c : List α) :
    (∀ x ∈ acc, containsFn eq (distinctAux eq acc c) x = true) ∧
    (∀ x ∈ c, containsFn eq (distinctAux eq acc c) x = true) := by
  induction c generalizing acc with
  | nil =>
    constructor
    · intro x hx; simp only [distinctAux, containsFn, List.any_eq_true]
      exact ⟨x, List.mem_reverse.mpr hx, hr x⟩
    · intro x hx; simp at hx
  | cons y ys ih =>
    unfold distinctAux
    split
    · rename_i hc
      have := ih acc
      constructor
      · exact this.1
      · intro x hx
        rcases List.mem_cons.mp hx with h | h
        · subst h
          simp only [containsFn, List.any_eq_true] at hc
          obtain ⟨z, hz, hzx⟩ := hc
          have hcov := this.1 z hz
          simp only [containsFn, List.any_eq_true] at hcov ⊢
          obtain ⟨w, hw, hwz⟩ := hcov
          exact ⟨w, hw, ht w z x hwz hzx⟩
        · exact this.2 x h
    · have := ih (y :: acc)
      constructor
      · intro x hx; exact this.1 x (List.mem_cons_of_mem _ hx)
      · intro x hx
        rcases List.mem_cons.mp hx with h | h
        · subst h; exact this.1 x List.mem_cons_self
        · exact this.2 x h

/-- `distinct()` keeps a representative of each class of equal items -/
theorem distinct_covers (eq : α → α → Bool) (hr : ∀ x, eq x x = true)
    (ht : ∀ a b c, eq a b = true → eq b c = true → eq a c = true) (c : List α) :
    ∀ x ∈ c, containsFn eq (distinctFn eq c) x = true :=
  (distinctAux_covers eq hr ht [] c).2

/-- …and only one: no kept item is equal to an earlier kept item -/
theorem distinctAux_pairwise (eq : α → α → Bool) (acc c : List α)
    (hacc : acc.reverse.Pairwise (fun a b => eq a b = false)) :
    (distinctAux eq acc c).Pairwise (fun a b => eq a b = false) := by
  induction c generalizing acc with
  | nil => simpa [distinctAux] using hacc
  | cons y ys ih =>
    unfold distinctAux
    split
    · exact ih acc hacc
    · rename_i hc
      apply ih
      simp only [List.reverse_cons, List.pairwise_append, List.pairwise_cons, List.not_mem_nil, false_implies,
        implies_true, List.Pairwise.nil, and_self, List.mem_reverse, List.mem_singleton, forall_eq, true_and]
      refine ⟨hacc, ?_⟩
      intro a ha
      simp only [containsFn, List.any_eq_true, not_exists, not_and, Bool.not_eq_true] at hc
      exact hc a ha

theorem distinct_pairwise (eq : α → α → Bool) (c : List α) :
    (distinctFn eq c).Pairwise (fun a b => eq a b = false) :=
  distinctAux_pairwise eq [] c (by simp)

/-- `isDistinct()` iff `count() = distinct().count()` -/
theorem isDistinct_iff_count (eq : α → α → Bool) (c : List α) :
    isDistinctFn eq c = decide (countFn c = countFn (distinctFn eq c)) := by
  simp only [isDistinctFn, countFn]
  by_cases h : (distinctFn eq c).length = c.length
  · simp [h]
  · have : ¬ ((c.length : Int) = ((distinctFn eq c).length : Int)) := by omega
    simp [h, this]

/-- `intersect(d)`: only items of c that are equal to some item of d, no two of them equal -/
theorem intersectAux_spec (eq : α → α → Bool) (d acc c : List α)
    (hacc : acc.reverse.Pairwise (fun a b => eq a b = false)) (hin : ∀ x ∈ acc, containsFn eq d x = true) :
    (intersectAux eq d acc c).Pairwise (fun a b => eq a b = false) ∧
    (∀ x ∈ intersectAux eq d acc c, (x ∈ acc ∨ x ∈ c) ∧ containsFn eq d x = true) := by
  induction c generalizing acc with
  | nil =>
    simp only [intersectAux]
    exact ⟨hacc, fun x hx => ⟨Or.inl (List.mem_reverse.mp hx), hin x (List.mem_reverse.mp hx)⟩⟩
  | cons y ys ih =>
    unfold intersectAux
    split
    · rename_i hc
      simp only [Bool.and_eq_true, Bool.not_eq_true'] at hc
      have hp : (y :: acc).reverse.Pairwise (fun a b => eq a b = false) := by
        simp only [List.reverse_cons, List.pairwise_append, List.pairwise_cons, List.not_mem_nil, false_implies,
          implies_true, List.Pairwise.nil, and_self, List.mem_reverse, List.mem_singleton, forall_eq, true_and]
        refine ⟨hacc, ?_⟩
        intro a ha
        have := hc.2
        simp only [containsFn, List.any_eq_false, Bool.not_eq_true] at this
        exact this a ha
      have hi : ∀ x ∈ y :: acc, containsFn eq d x = true := by
        intro x hx
        rcases List.mem_cons.mp hx with h | h
        · rw [h]; exact hc.1
        · exact hin x h
      have := ih (y :: acc) hp hi
      refine ⟨this.1, ?_⟩
      intro x hx
      have h2 := this.2 x hx
      refine ⟨?_, h2.2⟩
      rcases h2.1 with h | h
      · rcases List.mem_cons.mp h with h | h
        · right; rw [h]; exact List.mem_cons_self
        · left; exact h
      · right; exact List.mem_cons_of_mem _ h
    · have := ih acc hacc hin
      refine ⟨this.1, ?_⟩
      intro x hx
      have h2 := this.2 x hx
      refine ⟨?_, h2.2⟩
      rcases h2.1 with h | h
      · left; exact h
      · right; exact List.mem_cons_of_mem _ h

/-- `intersect(d)` is a duplicate-free set of items of c, each equal to some item of d -/
theorem intersect_spec (eq : α → α → Bool) (c d : List α) :
    (intersectFn eq c d).Pairwise (fun a b => eq a b = false) ∧
    (∀ x ∈ intersectFn eq c d, x ∈ c ∧ containsFn eq d x = true) := by
  have := intersectAux_spec eq d [] c (by simp) (by simp)
  refine ⟨this.1, ?_⟩
  intro x hx
  have h := this.2 x hx
  rcases h.1 with h1 | h1
  · simp at h1
  · exact ⟨h1, h.2⟩

/-- `exclude(d)` as the property states it: the items of c equal to no item of d, order and
    duplicates preserved.  FALSE of the implementation (known finding C10-exclude-symmetric-difference):
    the code also appends the items of d that are not in c. -/
def excludeRef (eq : α → α → Bool) (c d : List α) : List α := c.filter (fun x => !containsFn eq d x)

/-- what IS true of the implemented `exclude`: its prefix is the specified result, and it is the
    specified result exactly when every item of d occurs in c (or c is empty) -/
theorem exclude_partial (eq : α → α → Bool) (c d : List α) (hc : c ≠ []) :
    excludeFn eq c d = excludeRef eq c d ++ d.filter (fun x => !containsFn eq c x) := by
  cases c with
  | nil => exact absurd rfl hc
  | cons x xs => simp [excludeFn, excludeRef]

theorem exclude_counterexample :
    excludeFn (fun (a b : Nat) => a == b) [1, 2] [3] ≠ excludeRef (fun (a b : Nat) => a == b) [1, 2] [3] := by decide

/-- none of the functions ever yields an item that was not in its inputs (no null items) -/
theorem take_subset (n : Int) (c : List α) : ∀ x ∈ takeFn n c, x ∈ c := by
  intro x hx; unfold takeFn at hx
  (repeat' split at hx) <;> first | (simp at hx) | exact hx | exact List.mem_of_mem_take hx
theorem skip_subset (n : Int) (c : List α) : ∀ x ∈ skipFn n c, x ∈ c := by
  intro x hx; unfold skipFn at hx
  (repeat' split at hx) <;> first | (simp at hx) | exact hx | exact List.mem_of_mem_drop hx

example : takeFn 2147483647 [1, 2, 3] ++ skipFn 2147483647 [1, 2, 3] = [1, 2, 3] := by decide
example : takeFn (-2147483648) [1, 2, 3] = ([] : List Nat) := by decide
example : distinctFn (fun (a b : Nat) => a == b) [1, 2, 1, 3, 2] = [1, 2, 3] := by decide
example : intersectFn (fun (a b : Nat) => a == b) [1, 2, 2, 3] [2, 2, 4] = [2] := by decide

/-! ### the same laws on whole expressions (the assembled evaluator, FP.Model.Eval):
    for every criterion / argument expression, environment and input collection -/

section Expr
open FP.Model.Eval

/-- `exists(p)` equals `where(p).exists()`, errors included -/
theorem expr_exists_eq_where_exists (env : Env) (p : E) (input : List Val) :
    eval env (.fn "exists" (.argCons p .argNil)) input
      = eval env (.seq (.fn "where" (.argCons p .argNil)) (.fn "exists" .argNil)) input := by
  simp [eval, isClockFn, apply1, apply0, existsFn]
  cases whereFn (crit (eval env p)) input <;> simp [mapRes, Res.bind]

/-- `first()` = `[0]` = `take(1)` -/
theorem expr_first_index_take (env : Env) (input : List Val) :
    eval env (.fn "first" .argNil) input = eval env (.index (.lit (.int 0))) input ∧
    eval env (.fn "first" .argNil) input = eval env (.fn "take" (.argCons (.lit (.int 1)) .argNil)) input := by
  refine ⟨?_, ?_⟩
  · simp [eval, isClockFn, apply0, indexColl, Res.bind, first_eq_index0]
  · cases input <;> simp [eval, isClockFn, apply0, apply1, toInt32, Res.bind, takeFn, firstFn]
    intro h; exact List.eq_nil_of_length_eq_zero (by omega)

/-- `tail()` = `skip(1)` -/
theorem expr_tail_eq_skip1 (env : Env) (input : List Val) :
    eval env (.fn "tail" .argNil) input = eval env (.fn "skip" (.argCons (.lit (.int 1)) .argNil)) input := by
  cases input <;> simp [eval, isClockFn, apply0, apply1, toInt32, Res.bind, skipFn, tailFn]
  intro h; exact List.eq_nil_of_length_eq_zero (by omega)

/-- `take(n)` followed by `skip(n)` partitions the input, for every integer literal n -/
theorem expr_take_skip_partition (env : Env) (n : Int) (input : List Val) :
    ∃ a b, eval env (.fn "take" (.argCons (.lit (.int n)) .argNil)) input = .ok a ∧
           eval env (.fn "skip" (.argCons (.lit (.int n)) .argNil)) input = .ok b ∧ a ++ b = input := by
  cases input with
  | nil => exact ⟨[], [], by simp [eval, apply1], by simp [eval, apply1], rfl⟩
  | cons x xs =>
    refine ⟨takeFn n (x :: xs), skipFn n (x :: xs), ?_, ?_, take_skip_partition n _⟩ <;>
      simp [eval, apply1, toInt32, Res.bind]

/-- a path is evaluated step by step: the second step sees exactly what the first produced -/
theorem expr_seq (env : Env) (a b : E) (input mid : List Val) (h : eval env a input = .ok mid) :
    eval env (.seq a b) input = eval env b mid := by
  simp [eval, h, Res.bind]

/-- `where(p)` keeps an item exactly when p — evaluated on that item alone, `$this` being the item —
    is true, in order (for criteria that evaluate to at most one item on every input item) -/
theorem expr_where_eq_filter (env : Env) (p : E) (input : List Val)
    (h : Simple (crit (eval env p)) input) :
    eval env (.fn "where" (.argCons p .argNil)) input
      = .ok (input.filter (truthy (crit (eval env p)))) := by
  simp [eval, apply1]
  exact where_eq_filter _ _ h

/-- `$this` inside a criterion is the item under test -/
theorem expr_this_is_the_item (env : Env) (x : Val) : eval env .this [x] = .ok [x] := rfl

end Expr

/-! ### which argument a function implementation evaluates, and on what — regenerated from funcs/impl -/

/-- `where`, `select` and `all` evaluate their argument once per input item on the one-item collection of that
    item (so `$this` is the item under test; `exists(c)` goes through `Where`); `children` evaluates a field
    step per element; every other argument of every other function is evaluated on the function's own input.
    This is the shape `FP.Model.Eval.apply1 / apply2 / apply3` are written after (`crit a x = a [x]`,
    `(a input)` elsewhere). -/
def expectedArgEvals : List (String × String × String) :=
  [("All", "args[0]", "system.Collection{element}"), ("Children", "fe", "system.Collection{base}"),
   ("Contains", "args[0]", "input"), ("EndsWith", "args[0]", "input"), ("Exclude", "args[0]", "input"),
   ("Extension", "args[0]", "input"), ("Iif", "args[0]", "input"), ("Iif", "args[2]", "input"), ("Iif", "args[1]", "input"),
   ("IndexOf", "args[0]", "input"), ("Intersect", "args[0]", "input"), ("Join", "args[0]", "input"), ("Log", "args[0]", "input"),
   ("Matches", "args[0]", "input"), ("Power", "args[0]", "input"), ("Replace", "args[0]", "input"), ("Replace", "args[1]", "input"),
   ("ReplaceMatches", "args[0]", "input"), ("ReplaceMatches", "args[1]", "input"), ("Round", "args[0]", "input"),
   ("Select", "e", "system.Collection{item}"), ("Skip", "args[0]", "input"), ("StartsWith", "args[0]", "input"),
   ("Substring", "args[0]", "input"), ("Substring", "args[1]", "input"), ("Take", "args[0]", "input"),
   ("ToQuantity", "args[0]", "input"), ("Where", "e", "system.Collection{item}")]

theorem argument_evaluation_as_modelled : FP.Gen.ArgEval.argEvals = expectedArgEvals := by decide +kernel

end FP.Props.C10
