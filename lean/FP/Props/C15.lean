/-
  C15 — literals and value representations round-trip losslessly.
  Part 1 (this file): integer narrowing succeeds exactly when the value is representable.
  `FP.Gen.Narrow` is translated from internal/narrow/narrow.go on every run.
-/
import FP.Gen.Narrow
import FP.Ref.IntKinds
namespace FP.Props.C15
open FP FP.Go FP.Ref FP.Gen.Narrow

/-- Signed source types (every value of int, int8 … int64 is an int64): `ToInteger` reports
    success exactly when the value lies in the target kind's range — for all 11 target kinds and
    all 2^64 values. -/
theorem narrow_signed_iff_representable (to : String) (hto : to ∈ intKinds) (v : Int)
    (hv : -9223372036854775808 ≤ v ∧ v ≤ 9223372036854775807) :
    toIntegerOk true to v = some (representable to v) := by
  simp only [intKinds, List.mem_cons, List.mem_nil_iff, or_false] at hto
  have hw : (v + 9223372036854775808) % 18446744073709551616 - 9223372036854775808 = v := by omega
  rcases hto with rfl | rfl | rfl | rfl | rfl | rfl | rfl | rfl | rfl | rfl | rfl <;>
    simp only [toIntegerOk, canNarrowSigned, representable, kindRange, wrapU64, wrap64, if_true, hw,
      String.reduceEq, decide_false, decide_true, Bool.false_eq_true, if_false, Option.some.injEq] <;>
    (rw [Bool.eq_iff_iff]; simp; omega)

/-- Unsigned source types (every value is a uint64). -/
theorem narrow_unsigned_iff_representable (to : String) (hto : to ∈ intKinds) (v : Int)
    (hv : 0 ≤ v ∧ v ≤ 18446744073709551615) :
    toIntegerOk false to v = some (representable to v) := by
  simp only [intKinds, List.mem_cons, List.mem_nil_iff, or_false] at hto
  have hw : v % 18446744073709551616 = v := by omega
  rcases hto with rfl | rfl | rfl | rfl | rfl | rfl | rfl | rfl | rfl | rfl | rfl <;>
    simp only [toIntegerOk, canNarrowUnsigned, representable, kindRange, wrapU64, wrap64, if_true, hw,
      String.reduceEq, decide_false, decide_true, Bool.false_eq_true, if_false, Option.some.injEq] <;>
    (rw [Bool.eq_iff_iff]; simp; omega)

/-- the range test never traps -/
theorem narrow_never_panics (s : Bool) (to : String) (v : Int) : (toIntegerOk s to v).isSome := by
  cases s <;> simp [toIntegerOk, canNarrowSigned, canNarrowUnsigned, apply_ite Option.isSome]

example : toIntegerOk true "uint8" 255 = some true := by decide
example : toIntegerOk true "uint8" 256 = some false := by decide
example : toIntegerOk false "int64" 9223372036854775808 = some false := by decide

end FP.Props.C15
