/-
  C15 — literals and value representations round-trip losslessly.
  Part 1: integer narrowing succeeds exactly when the value is representable (`FP.Gen.Narrow` is
  translated from internal/narrow/narrow.go on every run).
  Part 2: string literals — the regenerated escape table is the specification's, every escape
  decodes to the character it denotes, every other character is left intact, and decoding undoes
  the escaping a writer of literals performs, for all strings.
  Part 3: the canonical string forms of Boolean, Integer, Date, DateTime and Time values re-parse
  to the same value (the theorems of FP.Props.C13 over the text model, restated here).
-/
import FP.Gen.Narrow
import FP.Ref.IntKinds
import FP.Model.Literal
import FP.Props.C13
namespace FP.Props.C15
open FP FP.Go FP.Ref FP.Gen.Narrow

/-- Signed source types (every value of int, int8 … int64 is an int64): `ToInteger` reports
    success exactly when the value lies in the target kind's range — for all 11 target kinds and
    all 2^64 values. -/
theorem narrow_signed_iff_representable (to : String) (hto : to ∈ intKinds) (v : Int)
    (hv : -9223372036854775808 ≤ v ∧ v ≤ 9223372036854775807) :
    toIntegerOk true to v = some (representable to v) := by
  simp only [intKinds, List.mem_cons, List.mem_nil_iff, or_false] at hto
  have hw : (v + 9223372036854775808) % 18446744073709551616 - 9223372036854775808 = v := by omega
  rcases hto with rfl | rfl | rfl | rfl | rfl | rfl | rfl | rfl | rfl | rfl | rfl <;>
    simp only [toIntegerOk, canNarrowSigned, representable, kindRange, wrapU64, wrap64, if_true, hw,
      String.reduceEq, decide_false, decide_true, Bool.false_eq_true, if_false, Option.some.injEq] <;>
    (rw [Bool.eq_iff_iff]; simp; omega)

/-- Unsigned source types (every value is a uint64). -/
theorem narrow_unsigned_iff_representable (to : String) (hto : to ∈ intKinds) (v : Int)
    (hv : 0 ≤ v ∧ v ≤ 18446744073709551615) :
    toIntegerOk false to v = some (representable to v) := by
  simp only [intKinds, List.mem_cons, List.mem_nil_iff, or_false] at hto
  have hw : v % 18446744073709551616 = v := by omega
  rcases hto with rfl | rfl | rfl | rfl | rfl | rfl | rfl | rfl | rfl | rfl | rfl <;>
    simp only [toIntegerOk, canNarrowUnsigned, representable, kindRange, wrapU64, wrap64, if_true, hw,
      String.reduceEq, decide_false, decide_true, Bool.false_eq_true, if_false, Option.some.injEq] <;>
    (rw [Bool.eq_iff_iff]; simp; omega)

/-- the range test never traps -/
theorem narrow_never_panics (s : Bool) (to : String) (v : Int) : (toIntegerOk s to v).isSome := by
  cases s <;> simp [toIntegerOk, canNarrowSigned, canNarrowUnsigned, apply_ite Option.isSome]

example : toIntegerOk true "uint8" 255 = some true := by decide
example : toIntegerOk true "uint8" 256 = some false := by decide
example : toIntegerOk false "int64" 9223372036854775808 = some false := by decide

/-! ### Part 2: string literals -/
section Literals
open FP.Model.Literal FP.Gen.Escapes

/-- the escape table of the source is the FHIRPath specification's: \' \" \` \r \t \n \f \\ \/ -/
theorem escape_table_is_spec :
    escapeTable = [(39, 39), (34, 34), (96, 96), (114, 13), (116, 9), (110, 10), (102, 12), (92, 92), (47, 47)] := by
  decide +kernel

theorem decodeAux_nil (f : Nat) : decodeAux f [] = [] := by cases f <;> rfl

theorem decodeAux_cons_ne (f : Nat) (c : Char) (r : List Char) (h : c ≠ '\\') :
    decodeAux (f + 1) (c :: r) = c :: decodeAux f r := by
  rw [decodeAux.eq_5]
  · intro h1 _; exact h h1
  · intro c' r' h1 _; exact h h1

theorem decodeAux_esc (f : Nat) (c d : Char) (r : List Char) (h : escapeOf c = some d) :
    decodeAux (f + 1) ('\\' :: c :: r) = d :: decodeAux f r := by
  simp [decodeAux, h]

/-- characters other than the backslash are left intact -/
theorem no_backslash_unchanged (s : List Char) (h : ∀ c ∈ s, c ≠ '\\') (f : Nat) (hf : s.length ≤ f) :
    decodeAux f s = s := by
  induction s generalizing f with
  | nil => exact decodeAux_nil f
  | cons c r ih =>
    cases f with
    | zero => simp at hf
    | succ f =>
      rw [decodeAux_cons_ne f c r (h c (by simp)), ih (fun x hx => h x (List.mem_cons_of_mem _ hx)) f (by simp at hf; omega)]

/-- every escape of the specification decodes to the character it denotes -/
theorem escapes_decode :
    escapeOf '\'' = some '\'' ∧ escapeOf '"' = some '"' ∧ escapeOf '`' = some '`' ∧ escapeOf 'r' = some '\r' ∧
    escapeOf 't' = some '\t' ∧ escapeOf 'n' = some '\n' ∧ escapeOf 'f' = some (Char.ofNat 12) ∧
    escapeOf '\\' = some '\\' ∧ escapeOf '/' = some '/' := by decide +kernel

/-- \uXXXX decodes to the code point -/
theorem unicode_decodes (r : List Char) (f : Nat) :
    decodeAux (f + 1) ('\\' :: 'u' :: '0' :: '0' :: '4' :: '1' :: r) = 'A' :: decodeAux f r := by
  have h1 : escapeOf 'u' = none := by decide +kernel
  have h2 : unicode? '0' '0' '4' '1' = some 'A' := by decide +kernel
  simp [decodeAux, h1, takeUnicode, h2]

/-- DECODE ∘ ENCODE = id: for every string, the literal body a writer produces by escaping
    backslash and quote decodes back to the string -/
theorem decode_encode (s : List Char) (f : Nat) (hf : (encode s).length ≤ f) : decodeAux f (encode s) = s := by
  induction s generalizing f with
  | nil => exact decodeAux_nil f
  | cons c r ih =>
    unfold encode at hf ⊢
    by_cases hc : (c == '\\' || c == '\'') = true
    · simp only [hc, if_true] at hf ⊢
      cases f with
      | zero => simp at hf
      | succ f =>
        have he : escapeOf c = some c := by
          rcases Bool.or_eq_true _ _ |>.mp hc with h | h
          · have : c = '\\' := by simpa using h
            subst this; exact escapes_decode.2.2.2.2.2.2.2.1
          · have : c = '\'' := by simpa using h
            subst this; exact escapes_decode.1
        rw [decodeAux_esc f c c (encode r) he]
        -- one step consumed two characters: the remaining fuel is still enough
        have hlen : (encode r).length ≤ f := by simp at hf; omega
        rw [ih f hlen]
    · have hcf : (c == '\\' || c == '\'') = false := by simpa using hc
      simp only [hcf, Bool.false_eq_true, if_false] at hf ⊢
      cases f with
      | zero => simp at hf
      | succ f =>
        have hne : c ≠ '\\' := by intro e; subst e; simp at hcf
        rw [decodeAux_cons_ne f c (encode r) hne, ih f (by simp at hf; omega)]

/-- the whole literal: quotes dropped, body decoded -/
theorem literal_roundtrip (s : List Char) : parseString ('\'' :: encode s ++ ['\'']) = s := by
  have ht : trimQuotes ('\'' :: encode s ++ ['\'']) = encode s := by
    simp [trimQuotes, List.reverse_append]
  unfold parseString
  rw [ht]
  exact decode_encode s _ (Nat.le_refl _)

end Literals

/-! ### Part 3: canonical string forms re-parse to the same value (restated from C13) -/

open FP.Model.Text FP.Model.Conv FP.Lemmas.Text FP.Gen.Layouts in
theorem boolean_text_roundtrip (b : Bool) :
    toBooleanV (.str (if b then "true".toList else "false".toList)) = .ok (some (.bool b)) :=
  (FP.Props.C13.boolean_roundtrip b).2

open FP.Model.Text FP.Model.Conv FP.Lemmas.Text FP.Gen.Layouts in
theorem integer_text_roundtrip (i : Int) (h : -2147483648 ≤ i ∧ i < 2147483648) :
    toIntegerV (.str (renderInt i)) = .ok (some (.int i)) :=
  (FP.Props.C13.integer_roundtrip i h).2

open FP.Model.Text FP.Model.Conv FP.Lemmas.Text FP.Gen.Layouts in
/-- a Date / DateTime / Time value with any layout of the parser tables, rendered with its layout
    and parsed again, is the same value: same layout (precision), same reading, same offset -/
theorem temporal_text_roundtrip (w : Wall) (hb : Bounded w) (hn : w.nanos % 1000000 = 0) :
    (∀ (i : Nat) (l : String), parseDateLayouts[i]? = some l → Expressible (goLayout l.toList) w →
      toDateV (.str (formatT l w)) = .ok (some (.date l w))) ∧
    (∀ (i : Nat) (l : String), parseDateTimeLayouts[i]? = some l → Expressible (goLayout l.toList) w →
      toDateTimeV (.str (formatT l w)) = .ok (some (.dateTime l w))) ∧
    (∀ (i : Nat) (l : String), parseTimeLayouts[i]? = some l → Expressible (goLayout l.toList) w →
      toTimeV (.str (formatT l w)) = .ok (some (.time l w))) :=
  ⟨fun i l hl hx => (FP.Props.C13.date_roundtrip i l hl w hb hx hn).2,
   fun i l hl hx => (FP.Props.C13.dateTime_roundtrip i l hl w hb hx hn).2,
   fun i l hl hx => (FP.Props.C13.time_roundtrip i l hl w hb hx hn).2⟩

open FP.Model.Text FP.Model.Conv FP.Lemmas.Text FP.Gen.Layouts in
/-- the same for values with digits below the millisecond (fraction digits 4..9): the rendering has
    six or nine fraction digits and re-parses to the same layout, reading and offset -/
theorem temporal_text_roundtrip_fine (w : Wall) (hb : Bounded w) (hn : w.nanos % 1000000 ≠ 0) :
    (∀ (i : Nat) (l : String), parseDateTimeLayouts[i]? = some l → Expressible (fractionLayout (goLayout l.toList) w) w →
      toDateTimeV (.str (formatT l w)) = .ok (some (.dateTime l w))) ∧
    (∀ (i : Nat) (l : String), parseTimeLayouts[i]? = some l → Expressible (fractionLayout (goLayout l.toList) w) w →
      toTimeV (.str (formatT l w)) = .ok (some (.time l w))) :=
  ⟨fun i l hl hx => (FP.Props.C13.dateTime_roundtrip_fine i l hl w hb hn hx).2,
   fun i l hl hx => (FP.Props.C13.time_roundtrip_fine i l hl w hb hn hx).2⟩

open FP.Model FP.Model.Text FP.Model.Conv in
/-- the canonical string form of a Decimal re-parses (`NewFromString ∘ String`) to a decimal of the
    same value, for every coefficient and every exponent the library can hold; the decimal literal
    of the grammar (`digits.digits`) is among these texts -/
theorem decimal_text_roundtrip (d : Dec) (hexp : -2147483648 ≤ d.exp ∧ d.exp ≤ 2147483647) :
    ∃ d', parseDecGo (renderDec d) = some d' ∧ Dec.eq d' d = true ∧
      toDecimalV (.str (renderDec d)) = .ok (some (.dec d')) := by
  obtain ⟨d', hp, he⟩ := FP.Lemmas.DecText.parseDecGo_renderDec d hexp
  exact ⟨d', hp, he, by simp [toDecimalV, FP.Lemmas.DecText.matchesDecimal_render d, hp]⟩

open FP.Model FP.Model.Text FP.Model.Conv in
/-- Quantity: **partial** — the string form re-parses when the unit is a plain word (the calendar
    keywords); a UCUM unit is written bare and does not (finding C13-quantity-string-form) -/
theorem quantity_text_roundtrip_partial (d : Dec) (hexp : -2147483648 ≤ d.exp ∧ d.exp ≤ 2147483647)
    (a : Char) (t : S) (hu : (a :: t).all isAlpha = true) :
    ∃ d', toQuantityV (.str (renderQuantity d (a :: t))) = .ok (some (.quantity d' (a :: t))) ∧ Dec.eq d' d = true := by
  obtain ⟨d', h, he⟩ := (FP.Props.C13.quantity_word_roundtrip_partial d hexp a t hu).2
  exact ⟨d', by simpa [renderQuantity] using h, he⟩

end FP.Props.C15
