/-
  C01 — Compile, Evaluate and Patch are total: never panic or hang on any input.

  Totality is a property of the real code at run time; what a theorem can carry is (1) that the
  constructs which end a call with a Go panic by design (panic(...), Must* helpers, unchecked type
  assertions) are exactly an audited list — regenerated from the source on every run, so a new one
  breaks this theorem and sends the check looking for an input that reaches it — and (2) that every
  executable model of the evaluator's parts (each tied to the code by its own correspondence check)
  has no crash outcome: arithmetic, three-valued logic, navigation, conversions, calendar
  arithmetic, integer narrowing, resource wrapping, patch operations and the parser are total
  functions into value / empty / error.  Hangs, stack exhaustion and memory exhaustion are run-time
  behaviour no model exhibits: they are searched for by the harness under a wall-clock budget.
-/
import FP.Gen.Panics
import FP.Props.C06
import FP.Props.C08
import FP.Props.C15
import FP.Props.C20
import FP.Model.Navigate
import FP.Model.Conv
import FP.Lemmas.EvalTotal
import FP.Model.Calendar
import FP.Model.Patch
import FP.Model.Syntax
namespace FP.Props.C01
open FP FP.Model FP.Go

/-- the audited inventory.  Why none of these is reachable with an input of the domain:
    * `MustCompile`, `MustParse*`, `MustCreateTypeSpecifier`, `MustConvertToInteger`: the panicking
      helpers themselves; the evaluator calls them only on constants ("0.0", "1.0") or on text it has
      just produced from a value of the same type (now/today/timeOfDay format the clock with the
      layout they then parse; toQuantity re-parses the digits of an Integer) — see the `must` rows;
    * `Round`: `MustParseDecimal` of "%d" of an int32;
    * `containedresource.Wrap`, `resource.New`/`TypeOf`, `reference.TypedFromIdentity`,
      `protofields.Overwrite`: panic on a resource type that is not one of the registered R4 types
      (C20 proves the registration table complete) or on a nil resource (outside the domain);
    * unchecked assertions: on values whose dynamic type the preceding code established (visitor
      results are always *VisitResult / *typeResult; reflection over proto messages of known kinds). -/
def expectedSites : List (String × String × String × String) := [
  ("fhirpath", "MustCompile", "panic", ""),
  ("fhirpath/internal/expr", "unwrapReference", "assert", "rv.Get(…).Message(…).Interface(…).(*dtpb.ReferenceId)"),
  ("fhirpath/internal/funcs", "ToFunction", "assert", "output[…].Interface(…).(system.Collection)"),
  ("fhirpath/internal/funcs", "ToFunction", "assert", "output[…].Interface(…).(system.Collection)"),
  ("fhirpath/internal/funcs/impl", "Round", "must", "system.MustParseDecimal(<expr>)"),
  ("fhirpath/internal/funcs/impl", "ToDecimal", "assert", "value.(system.Boolean)"),
  ("fhirpath/internal/funcs/impl", "ToDecimal", "must", "system.MustParseDecimal(\"0.0\")"),
  ("fhirpath/internal/funcs/impl", "ToDecimal", "must", "system.MustParseDecimal(\"1.0\")"),
  ("fhirpath/internal/funcs/impl", "ToInteger", "assert", "value.(system.Boolean)"),
  ("fhirpath/internal/funcs/impl", "ToQuantity", "must", "system.MustParseQuantity(\"0.0\")"),
  ("fhirpath/internal/funcs/impl", "ToQuantity", "must", "system.MustParseQuantity(\"1.0\")"),
  ("fhirpath/internal/funcs/impl", "ToQuantity", "must", "system.MustParseQuantity(<expr>)"),
  ("fhirpath/internal/funcs/impl", "ToQuantity", "must", "system.MustParseQuantity(<expr>)"),
  ("fhirpath/internal/funcs/impl", "ToQuantity", "must", "system.MustParseQuantity(<expr>)"),
  ("fhirpath/internal/funcs/impl", "ToQuantity", "must", "system.MustParseQuantity(<expr>)"),
  ("fhirpath/internal/funcs/impl", "parseHumanDuration", "must", "regexp.MustCompile(`(\\d+)\\s*(\\w+)`)"),
  ("fhirpath/internal/parser", "VisitAdditiveExpression", "assert", "ctx.GetChild(…).(antlr.TerminalNode)"),
  ("fhirpath/internal/parser", "VisitAdditiveExpression", "assert", "v.Visit(…).(*VisitResult)"),
  ("fhirpath/internal/parser", "VisitAdditiveExpression", "assert", "v.clone(…).Visit(…).(*VisitResult)"),
  ("fhirpath/internal/parser", "VisitAndExpression", "assert", "v.Visit(…).(*VisitResult)"),
  ("fhirpath/internal/parser", "VisitAndExpression", "assert", "v.clone(…).Visit(…).(*VisitResult)"),
  ("fhirpath/internal/parser", "VisitEqualityExpression", "assert", "ctx.GetChild(…).(antlr.TerminalNode)"),
  ("fhirpath/internal/parser", "VisitEqualityExpression", "assert", "v.Visit(…).(*VisitResult)"),
  ("fhirpath/internal/parser", "VisitEqualityExpression", "assert", "v.clone(…).Visit(…).(*VisitResult)"),
  ("fhirpath/internal/parser", "VisitFunction", "assert", "v.Visit(…).([]*VisitResult)"),
  ("fhirpath/internal/parser", "VisitImpliesExpression", "assert", "v.Visit(…).(*VisitResult)"),
  ("fhirpath/internal/parser", "VisitImpliesExpression", "assert", "v.clone(…).Visit(…).(*VisitResult)"),
  ("fhirpath/internal/parser", "VisitIndexerExpression", "assert", "v.Visit(…).(*VisitResult)"),
  ("fhirpath/internal/parser", "VisitIndexerExpression", "assert", "v.clone(…).Visit(…).(*VisitResult)"),
  ("fhirpath/internal/parser", "VisitInequalityExpression", "assert", "ctx.GetChild(…).(antlr.TerminalNode)"),
  ("fhirpath/internal/parser", "VisitInequalityExpression", "assert", "v.Visit(…).(*VisitResult)"),
  ("fhirpath/internal/parser", "VisitInequalityExpression", "assert", "v.clone(…).Visit(…).(*VisitResult)"),
  ("fhirpath/internal/parser", "VisitInvocationExpression", "assert", "v.Visit(…).(*VisitResult)"),
  ("fhirpath/internal/parser", "VisitInvocationExpression", "assert", "v.Visit(…).(*VisitResult)"),
  ("fhirpath/internal/parser", "VisitMultiplicativeExpression", "assert", "ctx.GetChild(…).(antlr.TerminalNode)"),
  ("fhirpath/internal/parser", "VisitMultiplicativeExpression", "assert", "v.Visit(…).(*VisitResult)"),
  ("fhirpath/internal/parser", "VisitMultiplicativeExpression", "assert", "v.clone(…).Visit(…).(*VisitResult)"),
  ("fhirpath/internal/parser", "VisitOrExpression", "assert", "ctx.GetChild(…).(antlr.TerminalNode)"),
  ("fhirpath/internal/parser", "VisitOrExpression", "assert", "v.Visit(…).(*VisitResult)"),
  ("fhirpath/internal/parser", "VisitOrExpression", "assert", "v.clone(…).Visit(…).(*VisitResult)"),
  ("fhirpath/internal/parser", "VisitParamList", "assert", "v.Visit(…).(*VisitResult)"),
  ("fhirpath/internal/parser", "VisitPolarityExpression", "assert", "ctx.GetChild(…).(antlr.TerminalNode)"),
  ("fhirpath/internal/parser", "VisitPolarityExpression", "assert", "v.Visit(…).(*VisitResult)"),
  ("fhirpath/internal/parser", "VisitProg", "assert", "v.Visit(…).(*VisitResult)"),
  ("fhirpath/internal/parser", "VisitTypeExpression", "assert", "ctx.GetChild(…).(antlr.TerminalNode)"),
  ("fhirpath/internal/parser", "VisitTypeExpression", "assert", "v.Visit(…).(*VisitResult)"),
  ("fhirpath/internal/parser", "VisitTypeExpression", "assert", "v.Visit(…).(*typeResult)"),
  ("fhirpath/internal/parser", "VisitTypeSpecifier", "assert", "v.Visit(…).([]string)"),
  ("fhirpath/internal/reflection", "MustCreateTypeSpecifier", "panic", ""),
  ("fhirpath/system", "MustParseDate", "panic", ""),
  ("fhirpath/system", "MustParseDateTime", "panic", ""),
  ("fhirpath/system", "MustParseDecimal", "panic", ""),
  ("fhirpath/system", "MustParseQuantity", "panic", ""),
  ("fhirpath/system", "MustParseTime", "panic", ""),
  ("fhirpath/system", "TryEqual", "assert", "c[…].(fhir.Base)"),
  ("fhirpath/system", "TryEqual", "assert", "other[…].(fhir.Base)"),
  ("fhirpath/system", "callEqual", "assert", "got.(bool)"),
  ("internal/containedresource", "Unwrap", "assert", "message.Interface(…).ProtoReflect(…).Interface(…).(fhir.Resource)"),
  ("internal/containedresource", "Wrap", "panic", ""),
  ("internal/element/reference", "TypedFromIdentity", "panic", ""),
  ("internal/element/reference", "typedFromURIString", "assert", "message.(*dtpb.Reference)"),
  ("internal/element/reference", "typedFromURIString", "assert", "message.(*dtpb.Reference)"),
  ("internal/fhirconv", "MustConvertToInteger", "panic", ""),
  ("internal/protofields", "Overwrite", "panic", ""),
  ("internal/resource", "New", "panic", ""),
  ("internal/resource", "NewFromString", "assert", "fields.New(…).(fhir.Resource)"),
  ("internal/resource", "TypeOf", "panic", ""),
  ("internal/slices", "IndexOf", "assert", "any(…).(proto.Message)"),
  ("internal/slices", "IndexOf", "assert", "any(…).(proto.Message)"),
  ("internal/slices", "MustConvert", "assert", "any(…).(To)")
]

theorem panic_sites_are_the_audited_ones : FP.Gen.Panics.sites = expectedSites := by decide +kernel

/-! ### no executable model has a crash outcome -/

/-- arithmetic on in-range operands (division by zero, overflow included) -/
theorem arithmetic_total (op : ArithOp) (l r : Val)
    (hl : ∀ i, l = .int i → inInt32 i) (hr : ∀ i, r = .int i → inInt32 i) : arithExpr op l r ≠ .panic :=
  FP.Props.C08.arith_never_panics op l r hl hr
/-- three-valued logic -/
theorem logic_total (op : BoolOp) (l r : List BItem) : boolExpr op l r ≠ .panic :=
  FP.Props.C06.boolExpr_never_panics op l r

/-- navigation: a step yields elements or the invalid-field / cast error -/
theorem navigation_total (name snake : String) (id : Nat) (m : MsgDesc) : fieldStep name snake id m ≠ .panic := by
  unfold fieldStep
  split
  · simp
  · split
    · split
      · unfold emit; split <;> (try split) <;> (try split) <;> simp
      · simp
    · simp
    · simp
    · simp

/-- conversions: value, empty or the (pinned) error -/
theorem conversions_total (t : Conv.Ty) (x : Conv.CV) : Conv.convTo t x ≠ .panic := by
  cases t <;> cases x <;>
    simp [Conv.convTo, Conv.toBooleanV, Conv.toIntegerV, Conv.toDecimalV, Conv.toStringV, Conv.toDateV, Conv.toDateTimeV,
      Conv.toTimeV, Conv.toQuantityV]
  all_goals (try (split <;> simp))

/-- calendar arithmetic: a reading or the mismatched-unit error -/
theorem calendar_total (p : Calendar.Prec) (w : Text.Wall) (v : Dec) (u : String) (s : Int) :
    Calendar.shiftDate p w v u s ≠ .panic ∧ Calendar.shiftDateTime p w v u s ≠ .panic ∧ Calendar.shiftTime p w v u s ≠ .panic := by
  refine ⟨?_, ?_, ?_⟩
  · unfold Calendar.shiftDate; split <;> (try split) <;> simp
  · unfold Calendar.shiftDateTime; split <;> simp
  · unfold Calendar.shiftTime; split <;> (try split) <;> simp

/-- patch: the outcome type has no crash constructor — every operation ends in ok or an error -/
theorem patch_total (o : Patch.Outcome) : o = .ok ∨ ∃ e, o = .err e := by
  cases o with
  | ok => exact Or.inl rfl
  | err e => exact Or.inr ⟨e, rfl⟩

/-! ### the assembled evaluator: Compile + Evaluate as a whole never crash -/

/-- THE EVALUATOR MODEL IS TOTAL: for every compiled expression — every nesting of operators, paths,
    indexers, type operators, criteria and the 41 modelled functions — every environment and every
    input collection, evaluation yields a collection or a named error, never a crash.  No hypothesis on
    the operands (zero divisors, MinInt32, empty and multi-item collections, values of the wrong type). -/
theorem evaluator_never_crashes (env : Eval.Env) (e : Eval.E) (input : List Val) :
    Eval.eval env e input ≠ .panic :=
  FP.Lemmas.EvalTotal.eval_ne_panic env e input

/-- … and so is the whole pipeline from the source text: for every source string, function table,
    environment and input, `run` is a result, an evaluation error, a Compile error or "outside the
    modelled fragment" — never the crash outcome -/
theorem compile_evaluate_never_crash (tbl : List FP.Gen.FuncTable.Entry) (src : String) (env : Eval.Env)
    (input : List Val) : Eval.run tbl src env input ≠ .crash := by
  unfold Eval.run
  split
  · simp
  · unfold Eval.finish
    split <;> try simp
    split <;> try simp
    rename_i h
    exact absurd h (FP.Lemmas.EvalTotal.eval_ne_panic _ _ _)


end FP.Props.C01
