/-
  C04 — compiled expressions are immutable, deterministic and goroutine-safe.
  (a) Compile isolation for every history of Compile calls, given that `funcs.Clone` copies
      (a fact re-read from table.go on every run);
  (b) the evaluator packages write only to locals, to the per-call config/context and to the
      per-Compile table — never to a package variable (inventory regenerated on every run);
  (c) a generic theorem: threads that write only locations they own and read only shared or own
      locations read, under EVERY interleaving, exactly what they read when run alone;
  (d) the wall clock is read in exactly one place (InitializeContext).
  The race detector, goroutine and TZ runs of the harness VALIDATE the modelling assumptions.
-/
import FP.Model.Isolation
import FP.Gen.Globals
import FP.Model.Eval
namespace FP.Props.C04
open FP.Model FP.Gen.Sites

/-! ### (a) Compile calls are isolated -/

theorem clone_copies : cloneCopies = true := by decide

/-- the base table is the same after any history of Compile calls -/
theorem base_table_unchanged (exp : Names) (w : World) (hist : List (List CompileOpt)) :
    (history true exp w hist).1 = w := by
  induction hist generalizing w with
  | nil => rfl
  | cons o os ih => simp [history, compileCallW, ih]

/-- what the k-th Compile sees depends only on the base table and ITS OWN options -/
theorem compile_sees_only_own_options (exp : Names) (w : World) (hist : List (List CompileOpt)) :
    (history true exp w hist).2 = hist.map (fun opts => applyCompileOpts exp w.base opts) := by
  induction hist generalizing w with
  | nil => rfl
  | cons o os ih => simp [history, compileCallW, ih]

/-- a built-in (or already registered) name cannot be replaced: the option fails and the table is unchanged -/
theorem existing_name_not_replaceable (exp : Names) (t : Names) (n : String) (good : Bool) (h : t.contains n = true) :
    applyCompileOpt exp t (.addFunction n good) = (t, true) := by
  simp only [applyCompileOpt, h, if_true]

/-- no option ever removes or renames an entry: every name of the table stays, in place -/
theorem options_only_append (exp : Names) (t : Names) (opts : List CompileOpt) :
    ∃ extra, (applyCompileOpts exp t opts).1 = t ++ extra := by
  induction opts generalizing t with
  | nil => exact ⟨[], by simp [applyCompileOpts]⟩
  | cons o os ih =>
    have h1 : ∃ e1, (applyCompileOpt exp t o).1 = t ++ e1 := by
      cases o with
      | addFunction n good =>
        unfold applyCompileOpt
        by_cases c : t.contains n = true
        · exact ⟨[], by simp only [c, if_true, List.append_nil]⟩
        · cases good
          · exact ⟨[], by simp only [c, Bool.false_eq_true, if_false, List.append_nil]⟩
          · exact ⟨[n], by simp only [c, if_true, Bool.false_eq_true, if_false]⟩
      | experimental => exact ⟨_, rfl⟩
      | permissive => exact ⟨[], by simp [applyCompileOpt]⟩
    obtain ⟨e1, he1⟩ := h1
    obtain ⟨e2, he2⟩ := ih (applyCompileOpt exp t o).1
    refine ⟨e1 ++ e2, ?_⟩
    simp only [applyCompileOpts]
    rw [he2, he1, List.append_assoc]

/-- a function registered in one Compile is invisible to every other Compile -/
theorem registered_function_is_local (exp : Names) (w : World) (n : String) (hfresh : w.base.contains n = false)
    (hexp : exp.contains n = false) (other : List CompileOpt) (hno : ∀ g, CompileOpt.addFunction n g ∉ other) :
    let h := history true exp w [[.addFunction n true], other]
    (h.2.getD 0 ([], false)).1.contains n = true ∧ (h.2.getD 1 ([], false)).1.contains n = false := by
  simp only [history, compileCallW, if_true]
  constructor
  · simp only [applyCompileOpts, applyCompileOpt, hfresh, Bool.false_eq_true, if_false, if_true, List.getD_cons_zero]
    simp
  · simp only [List.getD_cons_succ, List.getD_cons_zero]
    have gen : ∀ (t : Names), t.contains n = false → (applyCompileOpts exp t other).1.contains n = false := by
      induction other with
      | nil => intro t ht; simpa [applyCompileOpts] using ht
      | cons o os ih =>
        intro t ht
        simp only [applyCompileOpts]
        apply ih (fun g hg => hno g (List.mem_cons_of_mem _ hg))
        cases o with
        | addFunction m good =>
          have hmn : m ≠ n := by intro e; subst e; exact hno good List.mem_cons_self
          unfold applyCompileOpt
          by_cases c : t.contains m = true
          · simp only [c, if_true]; exact ht
          · cases good
            · simp only [c, Bool.false_eq_true, if_false]; exact ht
            · simp only [c, Bool.false_eq_true, if_false, if_true]
              have hnt : n ∉ t := by simpa using ht
              simp [hnt]; exact fun e => hmn e.symm
        | experimental =>
          have hnt : n ∉ t := by simpa using ht
          have hne : n ∉ exp := by simpa using hexp
          simp [applyCompileOpt, hnt, hne]
        | permissive => simp only [applyCompileOpt]; exact ht
    exact gen w.base hfresh

/-- were `Clone` to hand out the shared table (the `TODO: Optimize`), a registration would leak
    into later Compile calls -/
theorem shared_table_would_leak :
    let h := history false [] ⟨["where"]⟩ [[.addFunction "f" true], []]
    (h.2.getD 1 ([], false)).1 = ["where", "f"] ∧ h.1 = ⟨["where", "f"]⟩ := by decide

/-! ### (b) no write to process-wide state in the evaluator packages -/

theorem no_package_variable_writes :
    writes.all (fun w => w.prov == "local" || w.prov == "local-fresh" || w.prov == "receiver" || w.prov.startsWith "param:") = true := by decide +kernel

open FP.Gen.Globals in
/-- NO PROCESS-WIDE STATE IS WRITTEN AFTER START-UP — in the whole module, not only in the evaluator packages:
    every assignment, `++`/`--`, `delete`/`clear` and state-changing method call (Store, Delete, Lock, Do, …)
    whose target is a package-level variable, and every assignment to a variable of another package, sits in an
    `init` function or in the two test-support packages (`fhirtest`, `stablerand`).  A memo table, a cache, a
    counter or a tuned third-party global added anywhere shows up here before anything is evaluated. -/
theorem no_process_state_written_after_init :
    globalWrites.all (fun w => w.fn == "init" || w.pkg == "internal/fhirtest" || w.pkg == "internal/stablerand") = true := by
  decide +kernel

open FP.Gen.Globals in
/-- … and the package-level variables that could hold such state (everything that is not an error value, a
    compiled regular expression or an alias of one) are exactly the audited ones: look-up tables written as
    literals, the registries filled by `init`, the generated parser's static data -/
theorem package_variables_as_audited :
    ((pkgVars.filter (fun v => !(v.kind == "error-value" || v.kind == "regexp" || v.kind.startsWith "alias "))).map
      (fun v => (v.pkg, v.name))) =
    [("fhirpath/fhirpathtest", "Empty"), ("fhirpath/fhirpathtest", "True"), ("fhirpath/fhirpathtest", "False"),
     ("fhirpath/internal/expr", "nonEvaluableFields"),
     ("fhirpath/internal/funcs", "notImplemented"), ("fhirpath/internal/funcs", "baseTable"), ("fhirpath/internal/funcs", "experimentalTable"),
     ("fhirpath/internal/grammar", "FhirpathLexerLexerStaticData"), ("fhirpath/internal/grammar", "FhirpathParserStaticData"),
     ("fhirpath/system", "dateMap"), ("fhirpath/system", "timeMap"), ("fhirpath/system", "dateTimeMap"), ("fhirpath/system", "escapes"),
     ("internal/element", "leafElementsByMsgFullName"), ("internal/fhir", "yearZeroBase"),
     ("internal/fhirtest", "Elements"), ("internal/fhirtest", "BackboneElements"), ("internal/fhirtest", "Resources"),
     ("internal/fhirtest", "DomainResources"), ("internal/fhirtest", "CanonicalResources"), ("internal/fhirtest", "MetadataResources"),
     ("internal/protofields", "dummyResources"), ("internal/protofields", "dummyElements"), ("internal/protofields", "Resources"),
     ("internal/protofields", "Elements"), ("internal/resource", "delimiter"),
     ("internal/stablerand", "stableRand"), ("internal/stablerand", "randMutex")] := by
  decide +kernel

/-! ### (c) interleaving -/

/-- ownership discipline: thread `t` writes only locations it owns and reads only shared
    (`owner = none`) or own locations -/
def Disciplined (owner : Nat → Option Nat) (progs : List (List Act)) : Prop :=
  ∀ t prog, progs[t]? = some prog → ∀ a ∈ prog,
    (∀ l v, a = .write l v → owner l = some t) ∧ (∀ l, a = .read l → owner l = none ∨ owner l = some t)

def Agree (owner : Nat → Option Nat) (i : Nat) (m m' : Mem) : Prop :=
  ∀ l, owner l = none ∨ owner l = some i → m l = m' l

def readsOf (i : Nat) (tr : List (Nat × Nat)) : List Nat := tr.filterMap (fun p => if p.1 = i then some p.2 else none)

theorem disciplined_set (owner : Nat → Option Nat) (progs : List (List Act)) (t : Nat) (a : Act) (rest : List Act)
    (hd : Disciplined owner progs) (ht : progs[t]? = some (a :: rest)) : Disciplined owner (progs.set t rest) := by
  intro u prog hu b hb
  by_cases hut : u = t
  · subst hut
    have hlt : u < progs.length := by
      rcases List.getElem?_eq_some_iff.mp ht with ⟨h, _⟩; exact h
    rw [List.getElem?_set_self hlt] at hu
    cases hu
    exact hd u (a :: rest) ht b (List.mem_cons_of_mem _ hb)
  · rw [List.getElem?_set_ne (Ne.symm hut)] at hu
    exact hd u prog hu b hb

/-- Under every schedule, the values thread `i` reads are a prefix of what it reads when run
    alone (from any memory agreeing with the real one on shared and own locations). -/
theorem interleave_deterministic (owner : Nat → Option Nat) (i : Nat) (sched : List Nat) :
    ∀ (progs : List (List Act)) (m m' : Mem), Disciplined owner progs → Agree owner i m m' →
      (readsOf i (interleave m progs sched)) <+: solo m' (progs.getD i []) := by
  induction sched with
  | nil => intro progs m m' _ _; simp [interleave, readsOf]
  | cons t sched ih =>
    intro progs m m' hd ha
    unfold interleave
    cases hp : progs[t]? with
    | none => simpa using ih progs m m' hd ha
    | some prog =>
      cases prog with
      | nil => simpa using ih progs m m' hd ha
      | cons a rest =>
        have hd' := disciplined_set owner progs t a rest hd hp
        have hlt : t < progs.length := by
          rcases List.getElem?_eq_some_iff.mp hp with ⟨h, _⟩; exact h
        have hspec := hd t (a :: rest) hp a List.mem_cons_self
        cases a with
        | read l =>
          simp only []
          by_cases hti : t = i
          · subst hti
            have hown := hspec.2 l rfl
            have hval : m l = m' l := ha l hown
            have hgd : progs.getD t [] = .read l :: rest := by simp [List.getD, hp]
            have hgd' : (progs.set t rest).getD t [] = rest := by simp [List.getD, List.getElem?_set_self hlt]
            rw [hgd]
            simp only [readsOf, List.filterMap_cons, if_true, solo]
            rw [hval]
            have := ih (progs.set t rest) m m' hd' ha
            rw [hgd'] at this
            exact List.prefix_cons_inj _ |>.mpr this
          · have hgd' : (progs.set t rest).getD i [] = progs.getD i [] := by
              simp [List.getD, List.getElem?_set_ne hti]
            simp only [readsOf, List.filterMap_cons, hti, if_false]
            have := ih (progs.set t rest) m m' hd' ha
            rw [hgd'] at this
            exact this
        | write l v =>
          simp only []
          have hown := hspec.1 l v rfl
          by_cases hti : t = i
          · subst hti
            have hgd : progs.getD t [] = .write l v :: rest := by simp [List.getD, hp]
            have hgd' : (progs.set t rest).getD t [] = rest := by simp [List.getD, List.getElem?_set_self hlt]
            rw [hgd]
            simp only [solo]
            have hag : Agree owner t (m.set l v) (m'.set l v) := by
              intro x hx; simp only [Mem.set]; by_cases hxl : x = l <;> simp [hxl]; exact ha x hx
            have := ih (progs.set t rest) (m.set l v) (m'.set l v) hd' hag
            rw [hgd'] at this
            exact this
          · have hgd' : (progs.set t rest).getD i [] = progs.getD i [] := by
              simp [List.getD, List.getElem?_set_ne hti]
            have hag : Agree owner i (m.set l v) m' := by
              intro x hx
              simp only [Mem.set]
              by_cases hxl : x = l
              · subst hxl
                rcases hx with hx | hx
                · rw [hown] at hx; cases hx
                · rw [hown] at hx; cases hx; exact absurd rfl hti
              · simp [hxl]; exact ha x hx
            have := ih (progs.set t rest) (m.set l v) m' hd' hag
            rw [hgd'] at this
            exact this

/-- in particular: the same schedule-independent reads from the same initial memory -/
theorem reads_independent_of_schedule (owner : Nat → Option Nat) (i : Nat) (s1 s2 : List Nat)
    (progs : List (List Act)) (m : Mem) (hd : Disciplined owner progs) :
    readsOf i (interleave m progs s1) <+: solo m (progs.getD i []) ∧
    readsOf i (interleave m progs s2) <+: solo m (progs.getD i []) :=
  ⟨interleave_deterministic owner i s1 progs m m hd (fun _ _ => rfl),
   interleave_deterministic owner i s2 progs m m hd (fun _ _ => rfl)⟩

/-! ### (d) one instant -/

/-- the wall clock is read in exactly one place of the evaluator packages, `InitializeContext`, and the
    reading is normalised to UTC before it is stored (the outermost method of the call chain is `UTC`) -/
theorem clock_read_once : clockCalls = [("fhirpath/internal/expr", "InitializeContext", "time.Now -> UTC")] := by decide +kernel

-- non-vacuity: two disciplined threads sharing location 0 and owning 1 and 2
example : Disciplined (fun l => if l = 1 then some 0 else if l = 2 then some 1 else none)
    [[.read 0, .write 1 5, .read 1], [.write 2 7, .read 0, .read 2]] := by
  intro t prog ht a ha
  match t, ht with
  | 0, ht => simp at ht; subst ht; simp at ha; rcases ha with rfl | rfl | rfl <;> simp
  | 1, ht => simp at ht; subst ht; simp at ha; rcases ha with rfl | rfl | rfl <;> simp
  | n + 2, ht => simp at ht

/-! ### the clock inside the assembled evaluator (FP.Model.Eval): `now()`, `today()`, `timeOfDay()` -/

section Clock
open FP.Model.Eval

/-- ONE READING PER EVALUATION: wherever a clock function stands in an expression — on whatever input
    collection it is evaluated, under whatever criterion, however often — it yields the reading the
    evaluation started with; nothing an expression does can change it -/
theorem expr_clock_is_the_reading (env : Env) (n : String) (h : isClockFn n = true) (input : List Val) :
    eval env (.fn n .argNil) input = clockFn n env := by
  have hn : n ≠ "unimplemented!" := by
    intro hc; subst hc; simp [isClockFn] at h
  simp [eval, hn, h]

theorem expr_clock_same_everywhere (env : Env) (n : String) (h : isClockFn n = true) (i j : List Val) :
    eval env (.fn n .argNil) i = eval env (.fn n .argNil) j := by
  rw [expr_clock_is_the_reading env n h, expr_clock_is_the_reading env n h]

/-- a step before the clock function does not matter as long as it evaluates: `X.now()` is `now()` -/
theorem expr_clock_after_any_step (env : Env) (n : String) (h : isClockFn n = true) (a : E) (input mid : List Val)
    (ha : eval env a input = .ok mid) :
    eval env (.seq a (.fn n .argNil)) input = eval env (.fn n .argNil) input := by
  simp only [eval, ha, Res.bind]
  exact expr_clock_same_everywhere env n h _ _

/-- the variables of the caller cannot shadow or disturb the reading: `finish` puts it in front -/
theorem clock_not_shadowed (clock : List Val) (env : Env) (n : String) :
    clockFn n ((clockKey, clock) :: env) = clockFn n [(clockKey, clock)] := by
  simp [clockFn, List.find?]

-- non-vacuity: a reading with an offset; today() is the date of the reading in its own zone
example : (match clockFn "today" [(clockKey, [strVal "2020-02-29T23:59:59.999+05:30".toList])] with
    | .ok [.date t] => t.comps | _ => []) = [2020, 2, 29] := by decide +kernel

end Clock

end FP.Props.C04
