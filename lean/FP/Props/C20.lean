/-
  C20 — resource, bundle and extension wrappers are inverses for every R4 type.
  Part 1: the name → oneof-field conversion hits the right field for all 146 resource types and
  all extension value types (decided over the descriptor-derived tables of FP.Gen.Schema),
  wrap/unwrap inverse, extension mutators only touch their URL.
-/
import FP.Model.Wrappers
import FP.Gen.Consts
namespace FP.Props.C20
open FP FP.Model FP.Gen.Schema

/-- For every member of the ContainedResource oneof, snake-casing the resource's type name
    yields exactly that member's proto field name. -/
theorem toSnake_names_contained_field :
    containedOneof.all (fun p => toSnakeCase p.1 == p.2) = true := by decide +kernel

/-- Every registered resource type has a ContainedResource field (so `Wrap` never hits its panic). -/
theorem every_resource_has_field :
    resourceTypes.all (fun r => containedField r.name == some (toSnakeCase r.name) &&
      containedOneof.contains (r.name, toSnakeCase r.name)) = true := by decide +kernel

/-- …and conversely every oneof member is a registered resource type (all 146). -/
theorem every_field_is_registered :
    containedOneof.all (fun p => isValidResourceType p.1) = true ∧ containedOneof.length = resourceTypes.length := by
  decide +kernel

/-- Extension value types: the (special-cased) conversion names the right ValueX field. -/
theorem extension_names_field :
    extensionValueX.all (fun p => extensionFieldName p.1 == p.2) = true := by decide +kernel

theorem wrap_unwrap (r : Res0) (h : isValidResourceType r.type = true) (hreg : (containedField r.type).isSome) :
    ∃ c, wrap r = .ok c ∧ unwrap c = r := by
  unfold wrap
  cases hc : containedField r.type with
  | none => simp [hc] at hreg
  | some f => exact ⟨(f, r), rfl, rfl⟩

theorem wrap_never_panics_on_registered :
    resourceTypes.all (fun r => (wrap ⟨r.name, 0⟩) != .panic) = true := by decide +kernel

theorem bundle_unwrap_order (rs : List Res0) (fs : List String) (h : fs.length = rs.length) :
    bundleUnwrap (fs.zip rs) = rs := by
  unfold bundleUnwrap unwrap
  induction rs generalizing fs with
  | nil => simp
  | cons r rs ih =>
    cases fs with
    | nil => simp at h
    | cons f fs => simp at h; simp [ih fs h]

/-! extension mutators change only the extensions with that URL -/

theorem setByURL_others_unchanged (l : List Ext) (u : String) (vs : List Nat) :
    (setByURL l u vs).filter (fun x => x.1 != u) = l.filter (fun x => x.1 != u) := by
  unfold setByURL
  simp [List.filter_append, List.filter_filter]

theorem setByURL_sets (l : List Ext) (u : String) (vs : List Nat) :
    (setByURL l u vs).filter (fun x => x.1 == u) = vs.map (fun v => (u, v)) := by
  unfold setByURL
  have h1 : List.filter (fun a => a.fst == u && a.fst != u) l = [] := by
    apply List.filter_eq_nil_iff.mpr; intro a _; simp
  have h2 : List.filter (fun x => x.fst == u) (List.map (fun v => (u, v)) vs) = List.map (fun v => (u, v)) vs := by
    apply List.filter_eq_self.mpr; intro a ha; simp at ha; obtain ⟨v, _, rfl⟩ := ha; simp
  simp [List.filter_append, List.filter_filter, h1, h2]

theorem upsert_others_unchanged (l : List Ext) (e : Ext) :
    (upsert l e).filter (fun x => x.1 != e.1) = l.filter (fun x => x.1 != e.1) := by
  induction l with
  | nil => simp [upsert]
  | cons x xs ih =>
    unfold upsert
    by_cases h : x.1 = e.1
    · simp [h]
    · simp [h, ih]

theorem upsert_has_value (l : List Ext) (e : Ext) : e ∈ upsert l e := by
  induction l with
  | nil => simp [upsert]
  | cons x xs ih =>
    unfold upsert
    by_cases h : x.1 = e.1
    · simp [h]
    · simp [h]; right; exact ih

theorem appendInto_keeps (l es : List Ext) : (appendInto l es).take l.length = l := by
  simp [appendInto]

example : toSnakeCase "Base64Binary" = "base64_binary" := by decide +kernel
example : toSnakeCase "MedicinalProductUndesirableEffect" = "medicinal_product_undesirable_effect" := by decide +kernel
example : extensionFieldName "String" = "string_value" := by decide +kernel

open FP.Gen.Consts in
/-- THE TYPE CONSTANTS NAME THEIR OWN TYPES: every exported `resource.<Name>` constant (regenerated from
    consts.go) has the value "<Name>", that value is a registered resource type, and every registered
    resource type has its constant — so creating a resource through a constant creates that type -/
theorem every_constant_names_its_type :
    typeConsts.all (fun p => p.1 == p.2) = true ∧
    typeConsts.all (fun p => isValidResourceType p.2) = true ∧
    resourceTypes.all (fun r => typeConsts.any (fun p => p.2 == r.name)) = true := by decide +kernel

end FP.Props.C20
