/-
  C09 — date/time arithmetic matches calendar arithmetic and preserves precision.
  Theorems over FP.Model.Calendar: the proleptic Gregorian day-number bijection (every day number is
  a calendar date and back), and on top of it the laws of the arithmetic of fhirpath/system.
-/
import FP.Model.Calendar
import FP.Gen.Layouts
import FP.Model.LayoutPrec
import FP.Lemmas.Calendar
import FP.Model.Eval
namespace FP.Props.C09
open FP FP.Model FP.Model.Text FP.Model.Calendar FP.Lemmas.Calendar

/-- a reading whose date part is a calendar date -/
def ValidDate (w : Wall) : Prop := 1 ≤ w.month ∧ w.month ≤ 12 ∧ 1 ≤ w.day ∧ w.day ≤ daysIn w.month w.year

/-! ### the calendar -/

/-- day numbers and calendar dates are in bijection (all years, proleptic Gregorian) -/
theorem calendar_bijection :
    (∀ z, daysFromCivil (civilFromDays z).1 (civilFromDays z).2.1 (civilFromDays z).2.2 = z) ∧
    (∀ y m d, 1 ≤ m ∧ m ≤ 12 → 1 ≤ d ∧ d ≤ daysIn m y → civilFromDays (daysFromCivil y m d) = (y, m, d)) :=
  ⟨days_civil, civil_days⟩

/-- adding n days moves the day number by exactly n, and yields a calendar date -/
theorem addDays_dayNumber (w : Wall) (n : Int) : dayNumber (addDays w n) = dayNumber w + n := by
  simp only [addDays, dayNumber]
  exact days_civil _

theorem addDays_valid (w : Wall) (n : Int) : ValidDate (addDays w n) := by
  simp only [addDays, ValidDate]
  exact civil_valid _

/-- a week is seven days -/
theorem week_is_seven_days (p : Prec) (hp : 2 ≤ p) (v : Dec) :
    shiftFor p v .week = { days := 7 * Dec.intPartBig v } ∧ shiftFor p v .day = { days := Dec.intPartBig v } := by
  match p, hp with
  | p + 2, _ => exact ⟨rfl, rfl⟩

/-- (x + n days) - n days = x -/
theorem addDays_inverse (w : Wall) (hv : ValidDate w) (n : Int) : addDays (addDays w n) (-n) = w := by
  have h1 := addDays_dayNumber w n
  have : dayNumber (addDays w n) + -n = dayNumber w := by omega
  unfold addDays at *
  simp only [] at *
  rw [this]
  simp only [dayNumber]
  rw [civil_days w.year w.month w.day ⟨hv.1, hv.2.1⟩ ⟨hv.2.2.1, hv.2.2.2⟩]

/-- the result is monotone in the amount -/
theorem addDays_monotone (w : Wall) (a b : Int) (h : a ≤ b) : dayNumber (addDays w a) ≤ dayNumber (addDays w b) := by
  rw [addDays_dayNumber, addDays_dayNumber]; omega

/-! ### months and years: end-of-month clamping -/

theorem wall_ext (a b : Wall) (h1 : a.year = b.year) (h2 : a.month = b.month) (h3 : a.day = b.day) (h4 : a.hour = b.hour)
    (h5 : a.minute = b.minute) (h6 : a.second = b.second) (h7 : a.nanos = b.nanos) (h8 : a.offset = b.offset) : a = b := by
  cases a; cases b; simp_all

theorem addMonths_month_valid (w : Wall) (k : Int) : 1 ≤ (addMonthsClamp w k).month ∧ (addMonthsClamp w k).month ≤ 12 := by
  simp only [addMonthsClamp]; omega

/-- the day is kept when the target month has it, and clamped to the month's last day otherwise -/
theorem addMonths_clamps (w : Wall) (k : Int) :
    let r := addMonthsClamp w k
    (w.day ≤ daysIn r.month r.year → r.day = w.day) ∧ (daysIn r.month r.year < w.day → r.day = daysIn r.month r.year) := by
  simp only [addMonthsClamp]
  constructor
  · intro h; simp [h]
  · intro h; have : ¬ (w.day ≤ daysIn ((w.year * 12 + (w.month - 1) + k) % 12 + 1) ((w.year * 12 + (w.month - 1) + k) / 12)) := by omega
    simp [this]

theorem daysIn_ge (m y : Int) : 28 ≤ daysIn m y := by
  unfold daysIn; split <;> (try split) <;> omega

theorem addMonths_valid (w : Wall) (hv : ValidDate w) (k : Int) : ValidDate (addMonthsClamp w k) := by
  have hm := addMonths_month_valid w k
  have hg := daysIn_ge (addMonthsClamp w k).month (addMonthsClamp w k).year
  refine ⟨hm.1, hm.2, ?_, ?_⟩
  · simp only [addMonthsClamp] at hg ⊢
    split
    · exact hv.2.2.1
    · omega
  · simp only [addMonthsClamp]
    split
    · assumption
    · exact Int.le_refl _

/-- the months move by exactly k (twelve months are a year) -/
theorem addMonths_count (w : Wall) (hv : ValidDate w) (k : Int) :
    (addMonthsClamp w k).year * 12 + ((addMonthsClamp w k).month - 1) = w.year * 12 + (w.month - 1) + k := by
  simp only [addMonthsClamp]; omega

/-- (x + k months) - k months = x whenever no end-of-month clamping occurs -/
theorem addMonths_inverse (w : Wall) (hv : ValidDate w) (k : Int)
    (hnoclamp : w.day ≤ daysIn (addMonthsClamp w k).month (addMonthsClamp w k).year) :
    addMonthsClamp (addMonthsClamp w k) (-k) = w := by
  have hc := addMonths_count w hv k
  have hd : (addMonthsClamp w k).day = w.day := (addMonths_clamps w k).1 hnoclamp
  have hy : ((addMonthsClamp w k).year * 12 + ((addMonthsClamp w k).month - 1) + -k) / 12 = w.year := by
    have := hv.1; have := hv.2.1; omega
  have hm : ((addMonthsClamp w k).year * 12 + ((addMonthsClamp w k).month - 1) + -k) % 12 + 1 = w.month := by
    have := hv.1; have := hv.2.1; omega
  have hle : w.day ≤ daysIn w.month w.year := hv.2.2.2
  apply wall_ext
  · simp only [addMonthsClamp]; simp only [addMonthsClamp] at hy; exact hy
  · simp only [addMonthsClamp]; simp only [addMonthsClamp] at hm; exact hm
  · have e1 : (addMonthsClamp (addMonthsClamp w k) (-k)).day =
        if (addMonthsClamp w k).day ≤ daysIn (((addMonthsClamp w k).year * 12 + ((addMonthsClamp w k).month - 1) + -k) % 12 + 1)
            (((addMonthsClamp w k).year * 12 + ((addMonthsClamp w k).month - 1) + -k) / 12)
        then (addMonthsClamp w k).day
        else daysIn (((addMonthsClamp w k).year * 12 + ((addMonthsClamp w k).month - 1) + -k) % 12 + 1)
            (((addMonthsClamp w k).year * 12 + ((addMonthsClamp w k).month - 1) + -k) / 12) := rfl
    rw [e1, hy, hm, hd, if_pos hle]
  all_goals rfl

/-! ### exact durations -/

/-- a time of day within one day -/
def ValidTime (w : Wall) : Prop :=
  0 ≤ w.hour ∧ w.hour < 24 ∧ 0 ≤ w.minute ∧ w.minute < 60 ∧ 0 ≤ w.second ∧ w.second < 60 ∧ 0 ≤ w.nanos ∧ w.nanos < nsPerSec

theorem timeOfDay_range (w : Wall) (h : ValidTime w) : 0 ≤ timeOfDayNs w ∧ timeOfDayNs w < nsPerDay := by
  obtain ⟨h1, h2, h3, h4, h5, h6, h7, h8⟩ := h
  unfold timeOfDayNs nsPerDay nsPerSec at *
  omega

theorem withTimeOfDay_tod (w : Wall) (r : Int) (h : 0 ≤ r ∧ r < nsPerDay) : timeOfDayNs (withTimeOfDay w r) = r := by
  unfold timeOfDayNs withTimeOfDay nsPerDay nsPerSec at *
  simp only []
  omega

theorem withTimeOfDay_valid (w : Wall) (r : Int) (h : 0 ≤ r ∧ r < nsPerDay) : ValidTime (withTimeOfDay w r) := by
  unfold ValidTime withTimeOfDay nsPerDay nsPerSec at *
  simp only []
  omega

/-- adding an exact duration moves the instant by exactly that duration; offset and date validity are kept -/
theorem addNanos_instant (w : Wall) (ns : Int) : instantNs (addNanos w ns) = instantNs w + ns := by
  have hr : 0 ≤ (timeOfDayNs w + ns) % nsPerDay ∧ (timeOfDayNs w + ns) % nsPerDay < nsPerDay := by
    unfold nsPerDay nsPerSec; omega
  unfold instantNs addNanos
  simp only []
  rw [withTimeOfDay_tod _ _ hr]
  have hday : dayNumber (withTimeOfDay (addDays w ((timeOfDayNs w + ns) / nsPerDay)) ((timeOfDayNs w + ns) % nsPerDay)) =
      dayNumber w + (timeOfDayNs w + ns) / nsPerDay := by
    rw [← addDays_dayNumber]; rfl
  have hoff : (withTimeOfDay (addDays w ((timeOfDayNs w + ns) / nsPerDay)) ((timeOfDayNs w + ns) % nsPerDay)).offset = w.offset := rfl
  rw [hday, hoff]
  clear hr hday hoff
  generalize hdef : timeOfDayNs w + ns = t
  generalize dayNumber w = dn
  generalize timeOfDayNs w = tod at *
  unfold nsPerDay nsPerSec
  omega

/-- the result is monotone in the amount, and (x + q) - q is the same instant as x -/
theorem addNanos_monotone (w : Wall) (a b : Int) (h : a ≤ b) : instantNs (addNanos w a) ≤ instantNs (addNanos w b) := by
  rw [addNanos_instant, addNanos_instant]; omega
theorem addNanos_inverse_instant (w : Wall) (ns : Int) : instantNs (addNanos (addNanos w ns) (-ns)) = instantNs w := by
  rw [addNanos_instant, addNanos_instant]; omega

/-! ### the arithmetic of fhirpath/system -/

/-- the UTC offset (and with it the layout, which the operations do not touch) is preserved -/
theorem offset_preserved (w : Wall) (s : Shift) (sign : Int) : (applyShift w s sign).offset = w.offset := by
  unfold applyShift
  simp only []
  repeat' split
  all_goals rfl

/-- a unit that is not a calendar duration keyword is an error, never a silently unchanged value -/
theorem unsupported_unit_is_error (p : Prec) (w : Wall) (v : Dec) (unit : String) (sign : Int) (h : unitOf unit = none) :
    shiftDate p w v unit sign = .err "mismatched-unit" ∧ shiftDateTime p w v unit sign = .err "mismatched-unit" ∧
    shiftTime p w v unit sign = .err "mismatched-unit" := by
  simp [shiftDate, shiftDateTime, shiftTime, h]

/-- Time accepts only time-valued units, and wraps around midnight: the result is a time of day -/
theorem time_rejects_calendar_units (p : Prec) (w : Wall) (v : Dec) (sign : Int) :
    shiftTime p w v "days" sign = .err "mismatched-unit" ∧ shiftTime p w v "month" sign = .err "mismatched-unit" := by
  constructor <;> rfl
theorem time_wraps (p : Prec) (w w' : Wall) (v : Dec) (unit : String) (sign : Int) (h : shiftTime p w v unit sign = .ok w') :
    ValidTime w' := by
  unfold shiftTime at h
  split at h
  · cases h
  · split at h
    · cases h
    · simp only [Res.ok.injEq] at h
      subst h
      apply withTimeOfDay_valid
      unfold nsPerDay nsPerSec; omega

/-- an amount in a unit finer than the precision is converted to whole units of the precision,
    fractions dropped: hours on a day-precision value, seconds on a minute-precision value -/
theorem finer_units_converted (v : Dec) :
    shiftFor 2 v .hour = { days := tquo (Dec.intPartBig v * 3600 * nsPerSec) nsPerDay } ∧
    shiftFor 4 v .hour = { nanos := tquo (Dec.intPartBig v * 3600 * nsPerSec) (60 * nsPerSec) * (60 * nsPerSec) } ∧
    shiftFor 0 v .day = { years := tquo (Dec.intPartBig v) 365 } ∧
    shiftFor 1 v .day = { months := tquo (Dec.intPartBig v) 30 } ∧
    shiftFor 0 v .month = { years := tquo (Dec.intPartBig v) 12 } := by
  refine ⟨rfl, rfl, rfl, rfl, rfl⟩

/-- twenty-four hours on a day-precision value are exactly one day; twenty-three are none -/
example : shiftFor 2 ⟨24, 0⟩ .hour = { days := 1 } ∧ shiftFor 2 ⟨23, 0⟩ .hour = { days := 0 } ∧
    shiftFor 2 ⟨-23, 0⟩ .hour = { days := 0 } ∧ shiftFor 0 ⟨365, 0⟩ .day = { years := 1 } := by decide

/-- end-of-month clamping on concrete dates: Jan 31 + 1 month, Feb 29 + 1 year, and the inverse law's exclusion -/
example : (addMonthsClamp ⟨2020, 1, 31, 0, 0, 0, 0, 0⟩ 1).day = 29 ∧ (addMonthsClamp ⟨2021, 1, 31, 0, 0, 0, 0, 0⟩ 1).day = 28 ∧
    (addMonthsClamp ⟨2020, 2, 29, 0, 0, 0, 0, 0⟩ 12).day = 28 ∧
    addMonthsClamp (addMonthsClamp ⟨2020, 1, 31, 0, 0, 0, 0, 0⟩ 1) (-1) ≠ ⟨2020, 1, 31, 0, 0, 0, 0, 0⟩ := by decide

example : ValidDate ⟨2024, 2, 29, 0, 0, 0, 0, 0⟩ := by unfold ValidDate; decide

/-! ### the precision tables of layouts.go -/

/-! ### date / time arithmetic on whole expressions (the assembled evaluator, FP.Model.Eval) -/

section Expr
open FP.Model.Eval FP.Model.Temporal

/-- whatever the operand expressions are: when the left one evaluates to a single Date / DateTime /
    Time and the right one to a single Quantity, `+` and `-` ARE the calendar shift of this file's
    model (with a mismatched unit an error, never a guessed value) -/
theorem expr_temporal_shift (env : Env) (l r : E) (input : List Val) (x : Val) (v : Dec) (u : List UInt8)
    (hx : isTemporal x = true) (hl : eval env l input = .ok [x]) (hr : eval env r input = .ok [.quantity v u]) :
    eval env (.arith .add l r) input = mapArithErr (shiftVal 1 x v u) ∧
    eval env (.arith .sub l r) input = mapArithErr (shiftVal (-1) x v u) := by
  simp [eval, hl, hr, Res.bind, arithEv, hx]

theorem bind_ok_inv {α β : Type} {r : Res α} {f : α → β} {y : β} (h : (r.bind fun w => .ok (f w)) = .ok y) :
    ∃ w, r = .ok w ∧ y = f w := by
  cases r <;> simp [Res.bind] at h
  exact ⟨_, rfl, h.symm⟩

/-- the result has the operand's type and layout (its precision), and a DateTime keeps its offset -/
theorem shift_keeps_type_precision_zone (sg : Int) (x y : Val) (v : Dec) (u : List UInt8)
    (h : shiftVal sg x v u = .ok y) :
    (∀ a, x = .date a → ∃ b, y = .date b ∧ b.layout = a.layout) ∧
    (∀ a, x = .dateTime a → ∃ b, y = .dateTime b ∧ b.layout = a.layout ∧ b.off = a.off) ∧
    (∀ a, x = .time a → ∃ b, y = .time b ∧ b.layout = a.layout) := by
  unfold shiftVal at h
  split at h
  · simp at h
  · split at h
    · split at h
      · simp at h
      · obtain ⟨w, _, rfl⟩ := bind_ok_inv h
        simp [tmpOfDate]
    · split at h
      · simp at h
      · obtain ⟨w, hw, rfl⟩ := bind_ok_inv h
        refine ⟨by simp, ?_, by simp⟩
        intro a ha; cases ha
        refine ⟨_, rfl, by simp [tmpOfDateTime], ?_⟩
        unfold shiftDateTime at hw
        split at hw
        · simp at hw
        · simp only [Res.ok.injEq] at hw
          subst hw
          simp [tmpOfDateTime, offset_preserved, wallOfDateTime, inZone]
    · split at h
      · simp at h
      · obtain ⟨w, _, rfl⟩ := bind_ok_inv h
        simp [tmpOfTime]
    · simp at h

/-- the bridge keeps the instant: the UTC reading the comparison payload is built from denotes the same
    instant as the reading in the value's own zone, at offset zero -/
theorem utcWall_same_instant (w : Wall) : instantNs (utcWall w) = instantNs w ∧ (utcWall w).offset = 0 := by
  constructor
  · unfold utcWall
    rw [addNanos_instant]
    simp [instantNs, dayNumber, timeOfDayNs]
    omega
  · simp [utcWall, addNanos, withTimeOfDay, addDays]

/-- … and back: the reading arithmetic works on, recovered from the payload and the kept offset, denotes
    the same instant as the reading the payload was built from, in the same zone -/
theorem zone_roundtrip_same_instant (w : Wall) :
    instantNs (inZone (utcWall w) w.offset) = instantNs w ∧ (inZone (utcWall w) w.offset).offset = w.offset := by
  refine ⟨?_, by simp [inZone]⟩
  have h1 := (utcWall_same_instant w).1
  have h2 := (utcWall_same_instant w).2
  have h3 := addNanos_instant (utcWall w) (w.offset * nsPerSec)
  have h4 : (addNanos (utcWall w) (w.offset * nsPerSec)).offset = 0 := by
    simp [addNanos, withTimeOfDay, addDays, h2]
  simp only [inZone, instantNs, dayNumber, timeOfDayNs, nsPerSec, nsPerDay] at *
  rw [h4] at h3
  rw [h2] at h3 h1
  omega

/-- non-vacuity, and the clamping example of the property on the whole pipeline: the source text
    `@2020-01-31 + 1 month` compiles and evaluates to the Date 2020-02-29 -/
example : (run FP.Gen.FuncTable.baseTable "@2020-01-31 + 1 month" [] []) =
    .result [.date ⟨[2020, 2, 29], [2020, 2, 29, 0, 0, 0], "2006-01-02", 0⟩] := by decide +kernel

end Expr


open FP.Gen.Layouts in
/-- PRECISION IS THE LAYOUT'S: every entry of the regenerated `dateMap`, `dateTimeMap` and `timeMap`
    gives its layout the precision the layout's own text has — with or without an offset.  (The
    arithmetic and comparison models read these tables, so a wrong entry would change model and
    implementation alike; this theorem is what notices it.) -/
theorem layout_precisions_are_the_layouts :
    dateMap.all (fun p => p.2 == impliedPrecision (goLayout p.1.toList)) = true ∧
    dateTimeMap.all (fun p => p.2 == impliedPrecision (goLayout p.1.toList)) = true ∧
    timeMap.all (fun p => p.2 + 3 == impliedPrecision (goLayout p.1.toList)) = true := by decide +kernel

end FP.Props.C09
