/-
  C18 — FHIRPatch operations change exactly the targeted element, or nothing.
  Theorems over the model of patch.go (FP.Model.Patch): the store of messages after an operation.
-/
import FP.Model.Patch
namespace FP.Props.C18
open FP FP.Model.Patch

/-! ### an operation that does not succeed leaves every message as it was -/

theorem run_error_unchanged (s : Store) (r : Except Outcome Store) (h : (run s r).2 ≠ .ok) : (run s r).1 = s := by
  cases r with
  | ok s' => simp [run] at h
  | error e => rfl

theorem add_error_unchanged (s : Store) (camelOk resNil : Bool) (v : ValFacts) (evalErr : Bool) (result : List Item) (snake : String)
    (h : (addOp s camelOk resNil v evalErr result snake).2 ≠ .ok) : (addOp s camelOk resNil v evalErr result snake).1 = s :=
  run_error_unchanged _ _ h
theorem delete_error_unchanged (s : Store) (resNil evalErr : Bool) (last beforeLast result : List Item)
    (h : (deleteOp s resNil evalErr last beforeLast result).2 ≠ .ok) : (deleteOp s resNil evalErr last beforeLast result).1 = s :=
  run_error_unchanged _ _ h
theorem insert_error_unchanged (s : Store) (resNil evalErr : Bool) (last result : List Item) (v : ValFacts) (index : Int)
    (h : (insertOp s resNil evalErr last result v index).2 ≠ .ok) : (insertOp s resNil evalErr last result v index).1 = s :=
  run_error_unchanged _ _ h
theorem replace_error_unchanged (s : Store) (resNil evalErr : Bool) (last beforeLast result : List Item) (v : ValFacts)
    (h : (replaceOp s resNil evalErr last beforeLast result v).2 ≠ .ok) : (replaceOp s resNil evalErr last beforeLast result v).1 = s :=
  run_error_unchanged _ _ h

/-- deleting an absent element succeeds without change -/
theorem delete_absent (s : Store) (last beforeLast : List Item) :
    deleteOp s false false last beforeLast [] = (s, .ok) := rfl

/-- Move always reports not-implemented, without change -/
theorem move_not_implemented (s : Store) : moveOp s = (s, .err .notImplemented) := rfl

/-- a nil resource or value is an error, never a crash -/
theorem nil_value_is_error (s : Store) (v : ValFacts) (hv : v.isNil = true) (e : Bool) (l b r : List Item) (i : Int) (sn : String) :
    (addOp s true false v e r sn).2 = .err .invalidInput ∧ (insertOp s false e l r v i).2 = .err .invalidInput ∧
    (replaceOp s false e l b r v).2 = .err .invalidInput := by
  simp [addOp, insertOp, replaceOp, addCore, insertCore, replaceCore, run, hv]
theorem nil_resource_is_error (s : Store) (v : ValFacts) (e : Bool) (l b r : List Item) (i : Int) (sn : String) :
    (addOp s true true v e r sn).2 = .err .invalidInput ∧ (insertOp s true e l r v i).2 = .err .invalidInput ∧
    (replaceOp s true e l b r v).2 = .err .invalidInput ∧ (deleteOp s true e l b r).2 = .err .invalidInput := by
  simp [addOp, insertOp, replaceOp, deleteOp, addCore, insertCore, replaceCore, deleteCore, run]

/-! ### locality: only the located message changes, and only the located field of it -/

theorem get_put_other (s : Store) (m : PMsg) (id : Nat) (h : id ≠ m.id) : (s.put m).get id = s.get id := by
  unfold Store.get Store.put
  induction s with
  | nil => rfl
  | cons x r ih =>
    simp only [List.map_cons, List.find?_cons]
    by_cases hx : x.id = m.id
    · have h3 : (x.id == id) = false := by
        simp only [beq_eq_false_iff_ne]; intro e; exact h (e.symm.trans hx)
      have h2 : (m.id == id) = false := by
        simp only [beq_eq_false_iff_ne]; exact fun e => h e.symm
      have h1 : (x.id == m.id) = true := by simp [hx]
      rw [h1, if_pos rfl, h2, h3]
      exact ih
    · have h1 : (x.id == m.id) = false := by simp [hx]
      rw [h1, if_neg (by simp)]
      cases hxi : (x.id == id) with
      | true => rfl
      | false => exact ih

theorem setField_other (m : PMsg) (fi j : Nat) (vals : List Slot) (h : j ≠ fi) :
    (setField m fi vals).fields[j]? = m.fields[j]? := by
  simp only [setField, List.getElem?_mapIdx]
  cases hj : m.fields[j]? with
  | none => rfl
  | some f =>
    have : (j == fi) = false := by simp [h]
    simp [this]

theorem setField_same (m : PMsg) (fi : Nat) (vals : List Slot) (f : PField) (h : m.fields[fi]? = some f) :
    (setField m fi vals).fields[fi]? = some { f with vals := vals } := by
  simp [setField, List.getElem?_mapIdx, h]

theorem setField_id (m : PMsg) (fi : Nat) (vals : List Slot) : (setField m fi vals).id = m.id := rfl

/-! ### what a successful operation does to the located field -/

theorem eraseAt_length (l : List Slot) (k : Nat) (h : k < l.length) : (eraseAt l k).length + 1 = l.length := by
  simp [eraseAt]; omega
theorem eraseAt_before (l : List Slot) (k j : Nat) (h : j < k) (hk : k < l.length) : (eraseAt l k)[j]? = l[j]? := by
  simp only [eraseAt]
  rw [List.getElem?_append_left (by simp; omega)]
  simp [List.getElem?_take, h]
theorem eraseAt_after (l : List Slot) (k j : Nat) (h : k ≤ j) (hk : k < l.length) : (eraseAt l k)[j]? = l[j + 1]? := by
  simp only [eraseAt]
  rw [List.getElem?_append_right (by simp; omega)]
  simp only [List.length_take, List.getElem?_drop]
  congr 1; omega

theorem insertAt_length (l : List Slot) (k : Nat) (x : Slot) : (insertAt l k x).length = l.length + 1 := by
  simp [insertAt]; omega
theorem insertAt_at (l : List Slot) (k : Nat) (x : Slot) (hk : k ≤ l.length) : (insertAt l k x)[k]? = some x := by
  simp only [insertAt]
  rw [List.getElem?_append_right (by simp; omega)]
  simp [Nat.min_eq_left hk]
theorem insertAt_before (l : List Slot) (k j : Nat) (x : Slot) (h : j < k) (hk : k ≤ l.length) : (insertAt l k x)[j]? = l[j]? := by
  simp only [insertAt]
  rw [List.getElem?_append_left (by simp; omega)]
  simp [List.getElem?_take, h]
theorem insertAt_after (l : List Slot) (k j : Nat) (x : Slot) (h : k ≤ j) (hk : k ≤ l.length) : (insertAt l k x)[j + 1]? = l[j]? := by
  simp only [insertAt]
  rw [List.getElem?_append_right (by simp; omega)]
  simp only [List.length_take, Nat.min_eq_left hk]
  have : j + 1 - k = (j - k) + 1 := by omega
  rw [this, List.getElem?_cons_succ, List.getElem?_drop]
  congr 1; omega

theorem replaceAt_length (l : List Slot) (k : Nat) (x : Slot) (h : k < l.length) : (replaceAt l k x).length = l.length := by
  simp [replaceAt]; omega
theorem replaceAt_at (l : List Slot) (k : Nat) (x : Slot) (hk : k < l.length) : (replaceAt l k x)[k]? = some x := by
  simp only [replaceAt]
  rw [List.getElem?_append_right (by simp; omega)]
  simp [Nat.min_eq_left (Nat.le_of_lt hk)]
theorem replaceAt_other (l : List Slot) (k j : Nat) (x : Slot) (h : j ≠ k) (hk : k < l.length) : (replaceAt l k x)[j]? = l[j]? := by
  simp only [replaceAt]
  by_cases hj : j < k
  · rw [List.getElem?_append_left (by simp; omega)]
    simp [List.getElem?_take, hj]
  · rw [List.getElem?_append_right (by simp; omega)]
    simp only [List.length_take, Nat.min_eq_left (Nat.le_of_lt hk)]
    have : j - k = (j - k - 1) + 1 := by omega
    rw [this, List.getElem?_cons_succ, List.getElem?_drop]
    congr 1; omega

/-- a successful delete located the target in a message of `last` (or else of `beforeLast`) and
    rewrote exactly that message: one field of it loses exactly the target's slot (or is cleared) -/
theorem delete_ok_shape (s s' : Store) (last beforeLast : List Item) (t : Item)
    (h : deleteOp s false false last beforeLast [t] = (s', .ok)) :
    ∃ coll, (coll = last ∨ coll = beforeLast) ∧ ∃ m fi k f, locate s coll t = some (m, fi, k) ∧ m.fields[fi]? = some f ∧
      s' = s.put (setField m fi (match k with | some k => eraseAt f.vals k | none => [])) := by
  have key : ∀ coll s'', tryDelete s coll t = some s'' →
      ∃ m fi k f, locate s coll t = some (m, fi, k) ∧ m.fields[fi]? = some f ∧
        s'' = s.put (setField m fi (match k with | some k => eraseAt f.vals k | none => [])) := by
    intro coll s'' hd
    unfold tryDelete at hd
    split at hd
    · cases hd
    · rename_i m fi k hloc
      split at hd
      · rename_i f k' hf; cases hd; exact ⟨m, fi, some k', f, hloc, hf, rfl⟩
      · rename_i f hf; cases hd; exact ⟨m, fi, none, _, hloc, hf, rfl⟩
      · cases hd
  simp only [deleteOp, deleteCore, Bool.false_eq_true, if_false] at h
  split at h
  · rename_i s1 h1
    simp only [run, Prod.mk.injEq, and_true] at h
    subst h
    exact ⟨last, Or.inl rfl, key last _ h1⟩
  · split at h
    · rename_i s2 h2
      simp only [run, Prod.mk.injEq, and_true] at h
      subst h
      exact ⟨beforeLast, Or.inr rfl, key beforeLast _ h2⟩
    · simp [run] at h

/-- what `locate` returns is a message of the store in which the field scan found the target -/
theorem locate_sound (s : Store) (coll : List Item) (t : Item) (m : PMsg) (fi : Nat) (k : Option Nat)
    (h : locate s coll t = some (m, fi, k)) : ∃ id, Item.msg id ∈ coll ∧ s.get id = some m ∧ findField m t = some (fi, k) := by
  induction coll with
  | nil => simp [locate] at h
  | cons c r ih =>
    cases c with
    | sys =>
      simp only [locate] at h
      obtain ⟨id, h1, h2⟩ := ih h
      exact ⟨id, List.mem_cons_of_mem _ h1, h2⟩
    | msg id =>
      simp only [locate] at h
      split at h
      · obtain ⟨id', h1, h2⟩ := ih h
        exact ⟨id', List.mem_cons_of_mem _ h1, h2⟩
      · rename_i m' hm
        split at h
        · rename_i fi' k' hf
          cases h
          exact ⟨id, by simp, hm, hf⟩
        · obtain ⟨id', h1, h2⟩ := ih h
          exact ⟨id', List.mem_cons_of_mem _ h1, h2⟩

/-- field `f` holds target `t` at position `k` (list index, or the single value) -/
def HoldsAt (f : PField) (k : Option Nat) (t : Nat) : Prop :=
  match k with
  | some k => f.isList = true ∧ (f.vals[k]?.map (·.unwrapped)) = some t
  | none => f.isList = false ∧ (f.vals.head?.map (·.unwrapped)) = some t

/-- the field scan only reports a position that holds the target (seen through wrappers) -/
theorem findIn_sound (fs : List PField) (i0 t fi : Nat) (k : Option Nat) (h : findIn fs i0 t = .found fi k) :
    ∃ f, fs[fi - i0]? = some f ∧ i0 ≤ fi ∧ HoldsAt f k t := by
  induction fs generalizing i0 with
  | nil => simp [findIn] at h
  | cons f r ih =>
    have next : findIn r (i0 + 1) t = .found fi k → ∃ f', (f :: r)[fi - i0]? = some f' ∧ i0 ≤ fi ∧ HoldsAt f' k t := by
      intro h'
      obtain ⟨f', hf', hle, hk⟩ := ih (i0 + 1) h'
      refine ⟨f', ?_, by omega, hk⟩
      have : fi - i0 = (fi - (i0 + 1)) + 1 := by omega
      rw [this, List.getElem?_cons_succ]; exact hf'
    simp only [findIn] at h
    split at h
    · exact next h
    · split at h
      · rename_i hl
        split at h
        · rename_i k' hk'
          cases h
          refine ⟨f, by simp, by omega, ?_⟩
          have := List.findIdx?_eq_some_iff_getElem.mp hk'
          obtain ⟨hlt, hp, _⟩ := this
          refine ⟨hl, ?_⟩
          rw [List.getElem?_eq_getElem hlt]
          simpa using hp
        · exact next h
      · split at h
        · rename_i hl hm
          split at h
          · rename_i ht
            cases h
            refine ⟨f, by simp, by omega, ?_⟩
            simp only [Bool.not_eq_true] at hl
            exact ⟨hl, by simpa using ht⟩
          · exact next h
        · cases h

end FP.Props.C18
