/-
  C13 — conversion functions are mutually consistent and round-trip through strings.
  Theorems over the model of conversion.go (FP.Model.Conv) and the text model (FP.Model.Text).
-/
import FP.Model.Conv
import FP.Lemmas.Text
import FP.Lemmas.Conv
import FP.Lemmas.DecText
import FP.Lemmas.ConvFine
import FP.Model.LayoutPrec
import FP.Model.Eval
namespace FP.Props.C13
open FP FP.Model FP.Model.Text FP.Model.Conv FP.Lemmas.Text FP.Lemmas.Conv FP.Lemmas.DecText FP.Gen.Layouts

theorem toString_str (x : CV) (hx : x ≠ .complex) : ∃ s, toStringV x = .ok (some (.str s)) := by
  cases x <;> simp_all [toStringV]

/-- `x.convertsToT()` is true exactly when `x.toT()` is a value (for every item that `system.From`
    accepts; the complex-input case of toString is the known finding below) -/
theorem converts_iff_nonempty (t : Ty) (x : CV) (hx : x ≠ .complex) :
    convertsTo t x = true ↔ ∃ v, convTo t x = .ok (some v) := by
  unfold convertsTo
  constructor
  · intro h
    split at h
    · rename_i v hv; exact ⟨v, hv⟩
    · cases h
  · rintro ⟨v, hv⟩
    rw [hv]
    by_cases ht : t = .string
    · subst ht
      obtain ⟨s, hs⟩ := toString_str x hx
      simp only [convTo] at hv
      rw [hs] at hv
      cases hv
      simp
    · simp [ht]

theorem ty_boolean (x v : CV) (h : toBooleanV x = .ok (some v)) : v.ty = .boolean := by
  cases x <;> simp only [toBooleanV, Res.ok.injEq, Option.map_eq_some_iff, Option.some.injEq] at h
  all_goals (first | (obtain ⟨a, _, rfl⟩ := h; rfl) | (subst h; rfl) | cases h)

theorem ty_integer (x v : CV) (h : toIntegerV x = .ok (some v)) : v.ty = .integer := by
  cases x <;> simp only [toIntegerV] at h
  case str s => split at h <;> simp at h; subst h; rfl
  all_goals (first | (simp at h; subst h; rfl) | (simp at h))

theorem ty_decimal (x v : CV) (h : toDecimalV x = .ok (some v)) : v.ty = .decimal := by
  cases x <;> simp only [toDecimalV] at h
  case str s => split at h <;> simp at h; obtain ⟨a, _, rfl⟩ := h; rfl
  all_goals (first | (simp at h; obtain ⟨a, _, rfl⟩ := h; rfl) | (simp at h; subst h; rfl) | (simp at h))

theorem ty_string (x v : CV) (hx : x ≠ .complex) (h : toStringV x = .ok (some v)) : v.ty = .string := by
  obtain ⟨s, hs⟩ := toString_str x hx
  rw [hs] at h; cases h; rfl

theorem ty_parseDate (s : S) (v : CV) (h : parseDate s = some v) : v.ty = .date := by
  unfold parseDate at h; split at h <;> simp at h; subst h; rfl
theorem ty_parseDateTime (s : S) (v : CV) (h : parseDateTime s = some v) : v.ty = .dateTime := by
  unfold parseDateTime at h; split at h <;> simp at h; subst h; rfl
theorem ty_parseTime (s : S) (v : CV) (h : parseTime s = some v) : v.ty = .time := by
  unfold parseTime at h; split at h <;> simp at h; subst h; rfl

theorem ty_date (x v : CV) (h : toDateV x = .ok (some v)) : v.ty = .date := by
  cases x <;> simp only [toDateV, Res.ok.injEq] at h
  case date l w => cases h; rfl
  case dateTime l w => exact ty_parseDate _ _ h
  case str s => exact ty_parseDate _ _ h
  all_goals cases h

theorem ty_dateTime (x v : CV) (h : toDateTimeV x = .ok (some v)) : v.ty = .dateTime := by
  cases x <;> simp only [toDateTimeV, Res.ok.injEq] at h
  case date l w => cases h; rfl
  case dateTime l w => cases h; rfl
  case str s => exact ty_parseDateTime _ _ h
  all_goals cases h

theorem ty_time (x v : CV) (h : toTimeV x = .ok (some v)) : v.ty = .time := by
  cases x <;> simp only [toTimeV, Res.ok.injEq] at h
  case time l w => cases h; rfl
  case str s => exact ty_parseTime _ _ h
  all_goals cases h

theorem ty_quantity (x v : CV) (h : toQuantityV x = .ok (some v)) : v.ty = .quantity := by
  cases x <;> simp only [toQuantityV] at h
  case str s =>
    split at h
    · simp at h
    · simp only [Res.ok.injEq, Option.map_eq_some_iff] at h
      obtain ⟨a, _, rfl⟩ := h; rfl
  all_goals (first | (simp at h; obtain ⟨a, _, rfl⟩ := h; rfl) | (simp at h; subst h; rfl) | (simp at h))

/-- the result of `toT` is always of type T (complex input to toString excepted) -/
theorem result_type (t : Ty) (x v : CV) (hx : x ≠ .complex) (h : convTo t x = .ok (some v)) : v.ty = t := by
  cases t <;> simp only [convTo] at h
  · exact ty_boolean x v h
  · exact ty_integer x v h
  · exact ty_decimal x v h
  · exact ty_string x v hx h
  · exact ty_date x v h
  · exact ty_dateTime x v h
  · exact ty_time x v h
  · exact ty_quantity x v h
  · cases h

/-- converting twice equals converting once: a value of type T converts to itself -/
theorem self_conversion (x : CV) (hx : x ≠ .complex) : convTo x.ty x = .ok (some x) := by
  cases x <;> simp_all [convTo, CV.ty, toBooleanV, toIntegerV, toDecimalV, toStringV, toDateV, toDateTimeV, toTimeV, toQuantityV]

theorem idempotent (t : Ty) (x v : CV) (hx : x ≠ .complex) (h : convTo t x = .ok (some v)) :
    convTo t v = .ok (some v) := by
  have ht := result_type t x v hx h
  have hv : v ≠ .complex := by
    intro hc; subst hc
    cases t <;> simp [CV.ty] at ht
    simp [convTo] at h
  rw [← ht]; exact self_conversion v hv

/-- which conversions can succeed follows the FHIRPath conversion table -/
theorem follows_table (t : Ty) (x v : CV) (hx : x ≠ .complex) (h : convTo t x = .ok (some v)) :
    tableAllows x.ty t = true := by
  cases t <;> cases x <;>
    simp_all [convTo, tableAllows, CV.ty, toBooleanV, toIntegerV, toDecimalV, toStringV, toDateV, toDateTimeV, toTimeV, toQuantityV]

/-- `toT()` never fails, except `toInteger()` on a string that is not an integer (known finding,
    pinned by TestToInteger) -/
theorem never_fails_partial (t : Ty) (x : CV) (h : ¬ (t = .integer ∧ ∃ s, x = .str s)) :
    ∃ r, convTo t x = .ok r := by
  cases t <;> cases x <;>
    simp_all [convTo, toBooleanV, toIntegerV, toDecimalV, toStringV, toDateV, toDateTimeV, toTimeV, toQuantityV]
  all_goals (try (split <;> simp))

/-- the excluded case does fail, and toString on a complex element yields a Boolean: the two
    recorded deviations (both pinned by the repository's unit tests) -/
theorem toInteger_string_fails : convTo .integer (.str "404 Kg".toList) = .err "parse" := by decide
theorem toString_complex_is_boolean : convTo .string .complex = .ok (some (.bool false)) := rfl

/-! ### `x.toString().toT() = x` for x already of type T -/

theorem boolean_roundtrip (b : Bool) :
    (toStringV (.bool b)) = .ok (some (.str (if b then "true".toList else "false".toList))) ∧
    toBooleanV (.str (if b then "true".toList else "false".toList)) = .ok (some (.bool b)) := by
  cases b <;> exact ⟨rfl, by decide⟩

theorem integer_roundtrip (i : Int) (h : -2147483648 ≤ i ∧ i < 2147483648) :
    toStringV (.int i) = .ok (some (.str (renderInt i))) ∧
    toIntegerV (.str (renderInt i)) = .ok (some (.int i)) := by
  refine ⟨rfl, ?_⟩
  simp [toIntegerV, parseIntGo_renderInt i h]

/-- the regenerated layout tables of the three parsers have the properties the round trip needs
    (evaluated on the tables as they are in the source now) -/
theorem date_table_ok : tableOK parseDateLayouts parseDateLayoutsPrefix = true := by decide +kernel
theorem dateTime_table_ok : tableOK parseDateTimeLayouts parseDateTimeLayoutsPrefix = true := by decide +kernel
theorem time_table_ok : tableOK parseTimeLayouts parseTimeLayoutsPrefix = true := by decide +kernel

/-- a Date with the i-th date layout, rendered by toString and converted back, is the same value
    (same layout, hence precision, and same calendar reading) -/
theorem date_roundtrip (i : Nat) (l : String) (hl : parseDateLayouts[i]? = some l) (w : Wall) (hb : Bounded w)
    (hx : Expressible (goLayout l.toList) w) (hn : w.nanos % 1000000 = 0) :
    toStringV (.date l w) = .ok (some (.str (formatT l w))) ∧
    toDateV (.str (formatT l w)) = .ok (some (.date l w)) := by
  refine ⟨rfl, ?_⟩
  simp only [toDateV, parseDate, table_roundtrip _ _ date_table_ok i l hl w hb hx hn]
  have : parseDateLayouts.getD i "" = l := by simp [List.getD, hl]
  rw [this]

theorem dateTime_roundtrip (i : Nat) (l : String) (hl : parseDateTimeLayouts[i]? = some l) (w : Wall) (hb : Bounded w)
    (hx : Expressible (goLayout l.toList) w) (hn : w.nanos % 1000000 = 0) :
    toStringV (.dateTime l w) = .ok (some (.str (formatT l w))) ∧
    toDateTimeV (.str (formatT l w)) = .ok (some (.dateTime l w)) := by
  refine ⟨rfl, ?_⟩
  simp only [toDateTimeV, parseDateTime,
    parseFirstOk_of offsetInRange _ _ i w (table_roundtrip _ _ dateTime_table_ok i l hl w hb hx hn) (offsetInRange_of_bounded w hb)]
  have : parseDateTimeLayouts.getD i "" = l := by simp [List.getD, hl]
  rw [this, widen_id l w hx]

theorem time_roundtrip (i : Nat) (l : String) (hl : parseTimeLayouts[i]? = some l) (w : Wall) (hb : Bounded w)
    (hx : Expressible (goLayout l.toList) w) (hn : w.nanos % 1000000 = 0) :
    toStringV (.time l w) = .ok (some (.str (formatT l w))) ∧
    toTimeV (.str (formatT l w)) = .ok (some (.time l w)) := by
  refine ⟨rfl, ?_⟩
  simp only [toTimeV, parseTime, table_roundtrip _ _ time_table_ok i l hl w hb hx hn]
  have : parseTimeLayouts.getD i "" = l := by simp [List.getD, hl]
  rw [this, widen_id l w hx]

/-- the hypotheses are satisfiable: a millisecond dateTime with an offset, and what "expressible"
    excludes (sub-millisecond digits under a millisecond layout) -/
example : Bounded ⟨2024, 2, 29, 23, 59, 58, 123000000, 19800⟩ := by
  constructor <;> decide
example : Expressible (goLayout "2006-01-02T15:04:05.000Z07:00".toList) ⟨2024, 2, 29, 23, 59, 58, 123000000, 19800⟩ := by
  apply expressible_of
  · intro n hn; simp [goLayout] at hn; subst hn; decide
  · intro k hk; cases k <;> simp [goLayout, kindOf] at hk
example : ¬ Expressible (goLayout "2006-01-02T15:04:05.000Z07:00".toList) ⟨2024, 2, 29, 23, 59, 58, 123456000, 0⟩ := by
  intro h
  have := h.1 (.frac0 3) (by simp [goLayout]) (.nanos, (123456000 : Int) / pow10 (9 - 3) * pow10 (9 - 3)) (by simp [assign])
  simp [Wall.get, pow10] at this

/-! ### digits below the millisecond -/

/-- the regenerated tables also have what the fine round trip needs: every millisecond layout has
    its sibling without a fraction in the table, no earlier layout accepts the widened rendering,
    the sibling splits it with the fraction inside the seconds piece, and `widenLayout` maps the
    sibling back -/
theorem dateTime_fine_ok : fineOK parseDateTimeLayouts = true := by decide +kernel
theorem time_fine_ok : fineOK parseTimeLayouts = true := by decide +kernel

/-- DIGITS BELOW THE MILLISECOND: a DateTime whose reading has microseconds or nanoseconds,
    rendered by toString (six or nine fraction digits) and converted back, is the same value -/
theorem dateTime_roundtrip_fine (i : Nat) (l : String) (hl : parseDateTimeLayouts[i]? = some l) (w : Wall) (hb : Bounded w)
    (hn : w.nanos % 1000000 ≠ 0) (hx : Expressible (fractionLayout (goLayout l.toList) w) w) :
    toStringV (.dateTime l w) = .ok (some (.str (formatT l w))) ∧
    toDateTimeV (.str (formatT l w)) = .ok (some (.dateTime l w)) := by
  refine ⟨rfl, ?_⟩
  obtain ⟨j, hj, hw⟩ := table_roundtrip_fine _ _ dateTime_table_ok dateTime_fine_ok i l hl w hb hn hx
  simp only [toDateTimeV, parseDateTime, parseFirstOk_of offsetInRange _ _ j w hj (offsetInRange_of_bounded w hb), hw]

theorem time_roundtrip_fine (i : Nat) (l : String) (hl : parseTimeLayouts[i]? = some l) (w : Wall) (hb : Bounded w)
    (hn : w.nanos % 1000000 ≠ 0) (hx : Expressible (fractionLayout (goLayout l.toList) w) w) :
    toStringV (.time l w) = .ok (some (.str (formatT l w))) ∧
    toTimeV (.str (formatT l w)) = .ok (some (.time l w)) := by
  refine ⟨rfl, ?_⟩
  obtain ⟨j, hj, hw⟩ := table_roundtrip_fine _ _ time_table_ok time_fine_ok i l hl w hb hn hx
  simp only [toTimeV, parseTime, hj, hw]

/-- the hypotheses are satisfiable: microseconds under the millisecond layout -/
example : Expressible (fractionLayout (goLayout "2006-01-02T15:04:05.000Z07:00".toList) ⟨2024, 2, 29, 23, 59, 58, 123456000, 19800⟩)
    ⟨2024, 2, 29, 23, 59, 58, 123456000, 19800⟩ := by
  apply expressible_of
  · intro n hn; simp [fractionLayout, goLayout] at hn; subst hn; decide
  · intro k hk; cases k <;> simp [fractionLayout, goLayout, kindOf] at hk

/-! ### Decimal and Quantity texts -/

/-- a Decimal rendered by toString converts back to a Decimal of the same value: for every
    coefficient and every exponent the decimal library can hold -/
theorem decimal_roundtrip (d : Dec) (hexp : -2147483648 ≤ d.exp ∧ d.exp ≤ 2147483647) :
    toStringV (.dec d) = .ok (some (.str (renderDec d))) ∧
    ∃ d', toDecimalV (.str (renderDec d)) = .ok (some (.dec d')) ∧ Dec.eq d' d = true := by
  refine ⟨rfl, ?_⟩
  obtain ⟨d', hp, he⟩ := parseDecGo_renderDec d hexp
  exact ⟨d', by simp [toDecimalV, matchesDecimal_render d, hp], he⟩

/-- a Quantity whose unit is a plain word (the calendar-duration keywords are of this form) round
    trips through its string form.  For UCUM units the string form does not re-parse — the recorded
    finding C13-quantity-string-form, pinned by TestToString — so this is the *partial* statement -/
theorem quantity_word_roundtrip_partial (d : Dec) (hexp : -2147483648 ≤ d.exp ∧ d.exp ≤ 2147483647)
    (a : Char) (t : S) (hu : (a :: t).all isAlpha = true) :
    toStringV (.quantity d (a :: t)) = .ok (some (.str (renderDec d ++ ' ' :: a :: t))) ∧
    ∃ d', toQuantityV (.str (renderDec d ++ ' ' :: a :: t)) = .ok (some (.quantity d' (a :: t))) ∧ Dec.eq d' d = true := by
  refine ⟨by simp [toStringV, renderQuantity], ?_⟩
  obtain ⟨d', hp, he⟩ := parseDecGo_renderDec d hexp
  refine ⟨d', ?_, he⟩
  simp only [toQuantityV, matchQuantity_render_word d a t hu, indexWhere_space_render]
  simp [List.take_left', hp, trim_quotes_word _ hu]

/-- the finding itself, on the model: a UCUM unit written bare is not read back -/
theorem quantity_ucum_counterexample :
    toStringV (.quantity ⟨5, 0⟩ "mg/dL".toList) = .ok (some (.str "5 mg/dL".toList)) ∧
    toQuantityV (.str "5 mg/dL".toList) = .ok none := by
  refine ⟨?_, by decide⟩
  simp [toStringV, renderQuantity, renderDec, renderInt, natDigits]; decide

/-! ### the parser tables of layouts.go -/

/-- THE PARSER TABLES ARE THE SPECIFICATION'S: each type is read with one layout per precision, finest
    first (so that a text is read at the precision it is written with), after its own literal marker.
    (The round-trip theorems above hold for whatever tables pass `tableOK`; this pins the regenerated
    tables themselves, which the model reads like the implementation does.) -/
theorem layout_lists_as_specified :
    parseDateLayouts = ["2006-01-02", "2006-01", "2006"] ∧ parseDateLayoutsPrefix = "@" ∧
    parseDateTimeLayouts = ["2006-01-02T15:04:05.000Z07:00", "2006-01-02T15:04:05.000", "2006-01-02T15:04:05Z07:00",
      "2006-01-02T15:04:05", "2006-01-02T15:04Z07:00", "2006-01-02T15:04", "2006-01-02T15Z07:00", "2006-01-02T15",
      "2006-01-02T", "2006-01T", "2006T"] ∧ parseDateTimeLayoutsPrefix = "@" ∧
    parseTimeLayouts = ["15:04:05.000", "15:04:05", "15:04", "15"] ∧ parseTimeLayoutsPrefix = "@T" := by decide +kernel

/-- every layout a value can carry is one the parser tries: the precision tables and the parser tables
    list the same layouts -/
theorem every_layout_is_parsed :
    dateMap.map (·.1) = parseDateLayouts ∧ dateTimeMap.map (·.1) = parseDateTimeLayouts ∧
    timeMap.map (·.1) = parseTimeLayouts := by decide +kernel

/-- WIDENING A DATE TO A DATETIME KEEPS ITS PRECISION: the DateTime layout of a Date layout is that layout
    followed by `T` (the partial-DateTime form), it has the same implied precision, and every Date
    layout has one -/
theorem date_widening_keeps_precision :
    dateToDateTime.all (fun p => p.2 == p.1 ++ "T" &&
      impliedPrecision (goLayout p.1.toList) == impliedPrecision (goLayout p.2.toList)) = true ∧
    dateToDateTime.map (·.1) = parseDateLayouts ∧
    dateToDateTime.all (fun p => parseDateTimeLayouts.contains p.2) = true := by decide +kernel

/-! ### conversions on whole expressions (the assembled evaluator, FP.Model.Eval) -/

section Expr
open FP.Model.Eval

/-- the eight conversion targets the assembled evaluator carries, with their function names -/
def convNames : List (Ty × String × String) :=
  [(.string, "toString", "convertsToString"), (.integer, "toInteger", "convertsToInteger"),
   (.decimal, "toDecimal", "convertsToDecimal"), (.boolean, "toBoolean", "convertsToBoolean"),
   (.date, "toDate", "convertsToDate"), (.dateTime, "toDateTime", "convertsToDateTime"),
   (.time, "toTime", "convertsToTime"), (.quantity, "toQuantity", "convertsToQuantity")]

/-- `convertsToT()` is true exactly when `toT()` is non-empty: on the assembled evaluator, for every
    single System item — Boolean, Integer, Decimal, (UTF-8) String, Quantity, Date, DateTime, Time -/
theorem expr_converts_iff_nonempty (env : Env) (t : Ty) (to conv : String) (h : (t, to, conv) ∈ convNames)
    (v : Val) (cv : CV) (hv : toCV v = some cv) :
    eval env (.fn conv .argNil) [v] = .ok [.bool (convertsTo t cv)] ∧
    (convertsTo t cv = true ↔ ∃ r, convTo t cv = .ok (some r)) := by
  have hc : cv ≠ .complex := by
    cases v <;> simp [toCV] at hv <;> first | (subst hv; simp) | (obtain ⟨_, _, rfl⟩ := hv; simp)
  refine ⟨?_, converts_iff_nonempty t cv hc⟩
  simp only [convNames, List.mem_cons, Prod.mk.injEq, List.not_mem_nil, or_false] at h
  rcases h with ⟨rfl, rfl, rfl⟩ | ⟨rfl, rfl, rfl⟩ | ⟨rfl, rfl, rfl⟩ | ⟨rfl, rfl, rfl⟩ | ⟨rfl, rfl, rfl⟩ | ⟨rfl, rfl, rfl⟩ | ⟨rfl, rfl, rfl⟩ | ⟨rfl, rfl, rfl⟩ <;>
    simp [eval, isClockFn, apply0, convertsOn, hv]

/-- a conversion function on an empty input is empty, on more than one item an error -/
theorem expr_conversion_cardinality (env : Env) (t : Ty) (to conv : String) (h : (t, to, conv) ∈ convNames) :
    eval env (.fn to .argNil) [] = .ok [] ∧ eval env (.fn conv .argNil) [] = .ok [] ∧
    ∀ a b r, eval env (.fn to .argNil) (a :: b :: r) = .err "not-singleton" := by
  simp only [convNames, List.mem_cons, Prod.mk.injEq, List.not_mem_nil, or_false] at h
  rcases h with ⟨rfl, rfl, rfl⟩ | ⟨rfl, rfl, rfl⟩ | ⟨rfl, rfl, rfl⟩ | ⟨rfl, rfl, rfl⟩ | ⟨rfl, rfl, rfl⟩ | ⟨rfl, rfl, rfl⟩ | ⟨rfl, rfl, rfl⟩ | ⟨rfl, rfl, rfl⟩ <;>
    simp [eval, isClockFn, apply0, convOn, convertsOn]

end Expr

end FP.Props.C13
