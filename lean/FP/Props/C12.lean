/-
  C12 — `is` and `as` agree with the FHIR and System type hierarchies.
  `parent`, the validity tables and the specifier constructors are translated from
  reflection/type_specifier.go, elements.go and system/types.go on every run; the reference
  hierarchy `FP.Ref.parentOf` is derived from descriptor facts (FP.Gen.Schema), not from the code.
-/
import FP.Model.Types
import FP.Ref.Types
import FP.Model.Eval
namespace FP.Props.C12
open FP FP.Model FP.Ref FP.Gen.TypeParent

def refParentTS (n : String) : TypeSpecifier :=
  match parentOf n with | some p => ⟨"FHIR", p⟩ | none => ⟨"FHIR", n⟩

/-- The code's `parent` switch agrees with the R4 hierarchy on every FHIR type name
    (19 primitives, every registered datatype, all 146 resources, the abstract bases). -/
theorem parent_agrees : fhirTypeNames.all (fun n => parent ⟨"FHIR", n⟩ == refParentTS n) = true := by
  decide +kernel

/-- the hierarchy is closed (parents are type names), irreflexive, and every chain of parents
    reaches a root within four steps — so the recursion of `Is` terminates -/
theorem hierarchy_closed :
    fhirTypeNames.all (fun n => match parentOf n with
      | some p => fhirTypeNames.contains p && p != n
      | none => true) = true := by decide +kernel

def depthOk (n : String) : Bool :=
  match parentOf n with
  | none => true
  | some a => match parentOf a with
    | none => true
    | some b => match parentOf b with
      | none => true
      | some c => match parentOf c with
        | none => true
        | some _ => false

theorem chains_short : fhirTypeNames.all depthOk = true := by decide +kernel

theorem mem_of_all {α} {l : List α} {p : α → Bool} (h : l.all p = true) {a : α} (ha : a ∈ l) : p a = true :=
  List.all_eq_true.mp h a ha

/-- `Is` (model of the Go recursion) coincides with "is or derives from" in the reference
    hierarchy, for every pair of FHIR type names and every recursion budget. -/
theorem isFuel_eq_derivesFuel (k : Nat) :
    ∀ a, a ∈ fhirTypeNames → ∀ b, isFuel k ⟨"FHIR", a⟩ ⟨"FHIR", b⟩ = derivesFuel k a b := by
  induction k with
  | zero => intro a _ b; rfl
  | succ k ih =>
    intro a ha b
    have hp := mem_of_all parent_agrees ha
    have hc := mem_of_all hierarchy_closed ha
    simp only [beq_iff_eq] at hp
    unfold isFuel derivesFuel
    simp only [bne_self_eq_false, Bool.false_eq_true, if_false]
    rw [hp]
    unfold refParentTS
    cases hpo : parentOf a with
    | none =>
      simp only [beq_self_eq_true, Bool.true_and]
      by_cases hab : a = b
      · subst hab; simp
      · simp [hab]
    | some p =>
      rw [hpo] at hc
      simp only [Bool.and_eq_true, bne_iff_ne, ne_eq, List.contains_iff_mem] at hc
      have hne : ¬ ((⟨"FHIR", a⟩ : TypeSpecifier) == ⟨"FHIR", p⟩) = true := by
        simp; intro h; exact hc.2 h.symm
      simp only [hne, Bool.false_and, Bool.false_eq_true, if_false]
      by_cases hab : a = b
      · subst hab; simp
      · have : (a == b) = false := by simp [hab]
        simp only [this, Bool.false_eq_true, if_false, Bool.false_or]
        exact ih p hc.1 b

theorem is_agrees (a b : String) (ha : a ∈ fhirTypeNames) :
    is ⟨"FHIR", a⟩ ⟨"FHIR", b⟩ = derives a b := isFuel_eq_derivesFuel 8 a ha b

/-- namespaces never mix: a FHIR type is no System type and vice versa -/
theorem is_cross_namespace (a b : TypeSpecifier) (h : a.ns ≠ b.ns) : is a b = false := by
  unfold is isFuel; simp [h]

/-- System types: `x is T` iff T is x's own type or `Any`. -/
theorem is_system (a b : String) :
    is ⟨"System", a⟩ ⟨"System", b⟩ = (a == b || b == "Any") := by
  have hpar : ∀ n, parent ⟨"System", n⟩ = ⟨"System", "Any"⟩ := by
    intro n; simp [parent, parentG]
  unfold is
  by_cases hab : a = b
  · subst hab
    unfold isFuel; simp
  · by_cases haA : a = "Any"
    · subst haA
      unfold isFuel
      have hb : ¬ (b = "Any") := fun h => hab h.symm
      simp [hpar, hab, hb]
    · unfold isFuel
      simp only [bne_self_eq_false, Bool.false_eq_true, if_false, hpar]
      have h1 : ((⟨"System", a⟩ : TypeSpecifier) == ⟨"System", "Any"⟩) = false := by simp [haA]
      simp only [h1, Bool.false_and, Bool.false_eq_true, if_false]
      have h2 : (a == b) = false := by simp [hab]
      simp only [h2, Bool.false_eq_true, if_false, Bool.false_or]
      unfold isFuel
      simp only [bne_self_eq_false, Bool.false_eq_true, if_false, hpar, beq_self_eq_true, Bool.true_and]
      by_cases hbA : b = "Any"
      · subst hbA; simp
      · have : ¬ ("Any" = b) := fun h => hbA h.symm
        simp [hbA, this]

/-- `typeOf`: codes are `code`, nested components are BackboneElements (with modifier
    extensions) or Elements, capitalised primitive message names map to the lower-case FHIR names. -/
theorem typeOf_code (n : String) (x y : Bool) : typeOf (.msg n true x y) = ⟨"FHIR", "code"⟩ := rfl
theorem typeOf_nested (n : String) (m : Bool) :
    typeOf (.msg n false true m) = ⟨"FHIR", if m then "BackboneElement" else "Element"⟩ := by
  cases m <;> rfl
theorem typeOf_primitives :
    FP.Gen.Schema.lowerCamelTable.all (fun p =>
      (typeOf (.msg p.1 false false false)).typeName == p.2 || p.1 == "Xhtml") = true := by decide +kernel

/-- Name resolution: FHIR first, then System, case-sensitively; anything else is rejected. -/
theorem resolve_fhir_first (n : String) (h : n ∈ fhirTypeNames) :
    resolve none n = .ok ⟨"FHIR", n⟩ := by
  have : fhirTypeNames.all (fun n => resolve none n == .ok ⟨"FHIR", n⟩) = true := by decide +kernel
  simpa using mem_of_all this h
theorem resolve_system :
    ["Boolean", "String", "Integer", "Decimal", "Date", "DateTime", "Time", "Quantity", "Any"].all
      (fun n => (resolve none n == .ok ⟨"System", n⟩ || fhirTypeNames.contains n) && resolve (some "System") n == .ok ⟨"System", n⟩) = true
    ∧ resolve none "Quantity" = .ok ⟨"FHIR", "Quantity"⟩ := by decide +kernel
theorem resolve_case_sensitive :
    resolve none "patient" = .err "errInvalidType" ∧ resolve none "STRING" = .err "errInvalidType" ∧
    resolve none "string" = .ok ⟨"FHIR", "string"⟩ ∧ resolve none "String" = .ok ⟨"System", "String"⟩ ∧
    resolve (some "FHIR") "String" = .err "errInvalidType" ∧ resolve (some "Foo") "string" = .err "errInvalidNamespace" := by
  decide +kernel

example : derives "code" "string" = true ∧ derives "code" "Element" = true ∧ derives "Patient" "DomainResource" = true
    ∧ derives "Bundle" "DomainResource" = false ∧ derives "Timing" "BackboneElement" = true := by decide +kernel

/-- A TYPE SPECIFIER HAS ONE OR TWO PARTS: a dotted name of three or more parts (and the empty one) names
    no type — Compile rejects it, whatever the parts are -/
theorem long_specifier_rejected (ps : List String) (h : 3 ≤ ps.length ∨ ps = []) :
    resolveParts ps = .err "too many type qualifiers" := by
  rcases h with h | h
  · match ps, h with
    | _ :: _ :: _ :: _, _ => rfl
  · subst h; rfl

/-- … while one- and two-part names are looked up as before -/
theorem short_specifier_resolved (ns n : String) :
    resolveParts [n] = resolve none n ∧ resolveParts [ns, n] = resolve (some ns) n := ⟨rfl, rfl⟩

/-! ### `is` / `as` on whole expressions (the assembled evaluator, FP.Model.Eval) -/

section Expr
open FP.Model.Eval

/-- `x as T` returns x itself when `x is T` and empty otherwise — for every operand expression that
    evaluates to a single item, every type specifier, environment and input -/
theorem expr_as_iff_is (env : Env) (e : E) (t : TypeSpecifier) (input : List Val) (x : Val)
    (h : eval env e input = .ok [x]) :
    eval env (.isT e t) input = .ok [.bool (itemIs x t)] ∧
    eval env (.asT e t) input = .ok (if itemIs x t then [x] else []) := by
  simp [eval, h, Res.bind, typeOpColl]

/-- an empty operand gives empty, more than one item is an error — for `is` and `as` alike -/
theorem expr_type_op_cardinality (env : Env) (e : E) (t : TypeSpecifier) (input : List Val) :
    (eval env e input = .ok [] → eval env (.isT e t) input = .ok [] ∧ eval env (.asT e t) input = .ok []) ∧
    (∀ a b r, eval env e input = .ok (a :: b :: r) →
      eval env (.isT e t) input = .err "not-singleton" ∧ eval env (.asT e t) input = .err "not-singleton") := by
  refine ⟨fun h => ?_, fun a b r h => ?_⟩ <;> simp [eval, h, Res.bind, typeOpColl]

/-- a computed value has its System type: it is that type and `System.Any`, and no FHIR type -/
theorem expr_system_value_types (v : Val) (hv : v = .bool true ∨ v = .int 7 ∨ v = .dec ⟨15, -1⟩ ∨ v = .str [97]) :
    itemIs v ⟨"System", sysName v⟩ = true ∧ itemIs v ⟨"System", "Any"⟩ = true ∧
    itemIs v ⟨"FHIR", "Element"⟩ = false ∧ itemIs v ⟨"FHIR", "string"⟩ = false ∧ itemIs v ⟨"FHIR", "integer"⟩ = false := by
  rcases hv with rfl | rfl | rfl | rfl <;> decide +kernel

/-- Compile resolves the written specifier exactly as `resolveParts` does, and rejects what it rejects -/
theorem expr_compile_type_specifier (tbl : List FP.Gen.FuncTable.Entry) (e : Syntax.Ex) (parts : List String) (vr : Bool)
    (ce : E) (vr1 : Bool) (he : compile tbl e vr = .ok (ce, vr1)) :
    (∀ ts, resolveParts parts = .ok ts → compile tbl (.typ "is" e parts) vr = .ok (.isT ce ts, vr1) ∧
                                         compile tbl (.typ "as" e parts) vr = .ok (.asT ce ts, vr1)) ∧
    (∀ m, resolveParts parts = .err m → compile tbl (.typ "is" e parts) vr = .error) := by
  refine ⟨fun ts h => ?_, fun m h => ?_⟩ <;> simp [compile, he, h, CRes.bind]

end Expr

end FP.Props.C12
