/-
  C08 — Integer/Decimal arithmetic is exact; overflow and division by zero give empty.
  `FP.Gen.IntArith` is translated from system/primitives.go on every run; the operator
  dispatch, Decimal backend and numeric functions are the hand model `FP.Model.Arith`/`Dec`.
-/
import FP.Model.Arith
import FP.Lemmas.Int32
import FP.Lemmas.Arith
import FP.Lemmas.Dec
import FP.Model.Eval
namespace FP.Props.C08
open FP FP.Go FP.Model FP.Lemmas FP.Gen.IntArith

/-! ### Integer primitives (regenerated): exact or overflow, for all 2^64 operand pairs -/

theorem int_add_spec (i j : Int) (hi : inInt32 i) (hj : inInt32 j) :
    add i j = some (if inInt32 (i + j) then .ok (i + j) else .error "ErrIntOverflow") := by
  unfold add wrap32 inInt32 minInt32 maxInt32 at *
  simp only []
  by_cases h : (-2147483648 ≤ i + j ∧ i + j ≤ 2147483647)
  · have e : (i + j + 2147483648) % 4294967296 - 2147483648 = i + j := by omega
    rw [e]; simp [h]; omega
  · simp [h]
    by_cases hp : 0 < j <;> simp [hp] <;> omega

theorem int_sub_spec (i j : Int) (hi : inInt32 i) (hj : inInt32 j) :
    sub i j = some (if inInt32 (i - j) then .ok (i - j) else .error "ErrIntOverflow") := by
  unfold sub wrap32 inInt32 minInt32 maxInt32 at *
  simp only []
  by_cases h : (-2147483648 ≤ i - j ∧ i - j ≤ 2147483647)
  · have e : (i - j + 2147483648) % 4294967296 - 2147483648 = i - j := by omega
    rw [e]; simp [h]; omega
  · simp [h]
    by_cases hp : 0 < j <;> simp [hp] <;> omega

theorem int_mul_spec (i j : Int) (hi : inInt32 i) (hj : inInt32 j) :
    mul i j = some (if inInt32 (i * j) then .ok (i * j) else .error "ErrIntOverflow") := by
  unfold mul
  by_cases hi0 : i = 0
  · subst hi0; simp [inInt32, minInt32, maxInt32]
  by_cases hj0 : j = 0
  · subst hj0; simp [inInt32, minInt32, maxInt32]
  have hg : gdiv32 (wrap32 (i * j)) j = some (wrap32 ((wrap32 (i * j)).tdiv j)) := by simp [gdiv32, hj0]
  have hml : ((wrap32 (i * j)).tmod j).natAbs < j.natAbs := by
    rw [Int.natAbs_tmod]; exact Nat.mod_lt _ (by omega)
  have hs := sign_mul i j hi0 hj0
  have core := mul_core i j (i * j) (wrap32 (i * j)) ((wrap32 (i * j)).tdiv j) ((wrap32 (i * j)).tmod j)
    hi hj hi0 hj0 (Int.mul_comm j i) rfl (Int.mul_tdiv_add_tmod _ _) hml (Int.natAbs_tdiv_le_natAbs _ _)
    (by intro h; rw [h]; exact Int.mul_tdiv_cancel i hj0) hs.1 hs.2
  simp only [hi0, hj0, decide_false, Bool.or_false, Bool.false_eq_true, if_false, hg, Option.bind_some,
    gand_some_some, core]
  by_cases h : inInt32 (i * j)
  · simp [h, wrap32_id h]
  · simp [h]

/-- `div` truncates toward zero and `mod` is the matching remainder: `a = (a div b)*b + a mod b`,
    whenever the divisor is not zero and the quotient is representable. -/
theorem int_floordiv_mod_identity (a b : Int) (ha : inInt32 a) (hb : inInt32 b) (hb0 : b ≠ 0)
    (hov : ¬(a = minInt32 ∧ b = -1)) :
    floorDiv a b = some (a.tdiv b) ∧ mod a b = some (a.tmod b) ∧ a = (a.tdiv b) * b + a.tmod b := by
  have hq : inInt32 (a.tdiv b) := by
    have h1 := Int.natAbs_tdiv_le_natAbs a b
    have h2 := Int.mul_tdiv_add_tmod a b
    have h3 : (a.tmod b).natAbs < b.natAbs := by rw [Int.natAbs_tmod]; exact Nat.mod_lt _ (by omega)
    unfold inInt32 minInt32 maxInt32 at *
    by_cases hq2 : a.tdiv b = 2147483648
    · rw [hq2] at h2; exfalso; omega
    · omega
  have hr : inInt32 (a.tmod b) := by
    have h3 : (a.tmod b).natAbs < b.natAbs := by rw [Int.natAbs_tmod]; exact Nat.mod_lt _ (by omega)
    unfold inInt32 minInt32 maxInt32 at *; omega
  refine ⟨?_, ?_, ?_⟩
  · simp [floorDiv, gdiv32, hb0, wrap32_id hq]
  · simp [mod, gmod32, hb0, wrap32_id hr]
  · have := Int.mul_tdiv_add_tmod a b; rw [Int.mul_comm] at this; omega

/-! ### Operator level: `ArithmeticExpression` on two Integers -/

theorem arith_int_add (i j : Int) (hi : inInt32 i) (hj : inInt32 j) :
    arithExpr .add (.int i) (.int j) = .ok (if inInt32 (i + j) then [.int (i + j)] else []) := by
  simp only [arithExpr, normalize, evalOp, int_add_spec i j hi hj]
  by_cases h : inInt32 (i + j) <;> simp [h, liftInt, mapArithErr]

theorem arith_int_sub (i j : Int) (hi : inInt32 i) (hj : inInt32 j) :
    arithExpr .sub (.int i) (.int j) = .ok (if inInt32 (i - j) then [.int (i - j)] else []) := by
  simp only [arithExpr, normalize, evalOp, int_sub_spec i j hi hj]
  by_cases h : inInt32 (i - j) <;> simp [h, liftInt, mapArithErr]

theorem arith_int_mul (i j : Int) (hi : inInt32 i) (hj : inInt32 j) :
    arithExpr .mul (.int i) (.int j) = .ok (if inInt32 (i * j) then [.int (i * j)] else []) := by
  simp only [arithExpr, normalize, evalOp, int_mul_spec i j hi hj]
  by_cases h : inInt32 (i * j) <;> simp [h, liftInt, mapArithErr]

/-- Integer `div`/`mod`: zero divisor and the one unrepresentable quotient give empty; otherwise
    the truncated quotient / matching remainder. -/
theorem arith_int_floordiv (a b : Int) (ha : inInt32 a) (hb : inInt32 b) :
    arithExpr .floorDiv (.int a) (.int b) =
      .ok (if b = 0 ∨ (a = minInt32 ∧ b = -1) then [] else [.int (a.tdiv b)]) := by
  by_cases hb0 : b = 0
  · subst hb0; simp [arithExpr, normalize, evalOp, isZeroVal, mapArithErr]
  by_cases hov : (a = minInt32 ∧ b = -1)
  · simp [arithExpr, normalize, evalOp, isZeroVal, hb0, hov, mapArithErr]
  · have h := (int_floordiv_mod_identity a b ha hb hb0 hov).1
    simp [arithExpr, normalize, evalOp, isZeroVal, hb0, hov, h, Res.ofOption, Res.bind, mapArithErr]

theorem arith_int_mod (a b : Int) (ha : inInt32 a) (hb : inInt32 b) :
    arithExpr .mod (.int a) (.int b) = .ok (if b = 0 then [] else [.int (a.tmod b)]) := by
  by_cases hb0 : b = 0
  · subst hb0; simp [arithExpr, normalize, evalOp, isZeroVal, mapArithErr]
  · have hr : inInt32 (a.tmod b) := by
      have h3 : (a.tmod b).natAbs < b.natAbs := by rw [Int.natAbs_tmod]; exact Nat.mod_lt _ (by omega)
      unfold inInt32 minInt32 maxInt32 at *; omega
    simp [arithExpr, normalize, evalOp, isZeroVal, hb0, Gen.IntArith.mod, gmod32, wrap32_id hr, Res.ofOption, Res.bind, mapArithErr]

/-- Any division operator with a zero Integer or Decimal divisor yields empty — never a
    crash, an error or a number — whatever the (numeric) dividend is. -/
theorem division_by_zero_empty (op : ArithOp) (hop : op = .div ∨ op = .floorDiv ∨ op = .mod)
    (l r : Val) (hl : (∃ i, l = .int i) ∨ (∃ d, l = .dec d))
    (hr : (r = .int 0) ∨ (∃ d, r = .dec d ∧ d.coeff = 0)) :
    arithExpr op l r = .ok [] := by
  have hz : isZeroVal (normalize r (normalize l r)) = true := by
    rcases hl with ⟨i, rfl⟩ | ⟨d, rfl⟩ <;> rcases hr with rfl | ⟨e, rfl, he⟩ <;>
      simp_all [normalize, isZeroVal, Dec.isZero, Dec.ofInt]
  rcases hop with h | h | h <;> subst h <;> simp [arithExpr, evalOp, hz, mapArithErr]

/-- Unary minus: exact, and empty for the one Integer whose negation does not fit. -/
theorem negate_int (i : Int) (hi : inInt32 i) :
    negate (.int i) = .ok (if i = minInt32 then [] else [.int (-i)]) := by
  have hm : inInt32 (-1 : Int) := by unfold inInt32 minInt32 maxInt32; omega
  simp only [negate, int_mul_spec i (-1) hi hm]
  unfold inInt32 minInt32 maxInt32 at *
  by_cases h : i = -2147483648
  · subst h; simp
  · have : (-2147483648 ≤ i * -1 ∧ i * -1 ≤ 2147483647) := by omega
    have e : i * -1 = -i := by omega
    rw [e] at this
    simp [h, this, e]

theorem abs_int (i : Int) :
    mathFn .abs (.int i) = .ok (if i = minInt32 then [] else [.int i.natAbs]) := by
  by_cases h : i = minInt32
  · simp [mathFn, h]
  · by_cases hn : i < 0 <;> simp [mathFn, h, hn] <;> omega

/-! ### Decimals: `+ - *` are exact.  `num d s` is the decimal's value scaled by `10^s`. -/

theorem dec_add_exact (a b : Dec) (s : Int) (ha : 0 ≤ s + a.exp) (hb : 0 ≤ s + b.exp) :
    num (Dec.add a b) s = num a s + num b s := by
  unfold Dec.add Dec.rescalePair
  by_cases h1 : a.exp < b.exp
  · have r := rescale_down_num b a.exp s (by omega) ha
    simp only [h1, if_true]
    have : num ⟨a.coeff + (b.rescale a.exp).coeff, a.exp⟩ s = num a s + num (b.rescale a.exp) s := by
      unfold num; simp only [r.2]; rw [Int.add_mul]
    rw [this, r.1]
  · by_cases h2 : a.exp > b.exp
    · have r := rescale_down_num a b.exp s (by omega) hb
      simp only [h1, h2, if_false, if_true]
      have : num ⟨(a.rescale b.exp).coeff + b.coeff, (a.rescale b.exp).exp⟩ s = num (a.rescale b.exp) s + num b s := by
        unfold num; simp only [r.2]; rw [Int.add_mul]
      rw [this, r.1]
    · have : a.exp = b.exp := by omega
      simp only [h1, h2, if_false]
      unfold num; simp only [this]; rw [Int.add_mul]

theorem dec_sub_exact (a b : Dec) (s : Int) (ha : 0 ≤ s + a.exp) (hb : 0 ≤ s + b.exp) :
    num (Dec.sub a b) s = num a s - num b s := by
  unfold Dec.sub Dec.rescalePair
  by_cases h1 : a.exp < b.exp
  · have r := rescale_down_num b a.exp s (by omega) ha
    simp only [h1, if_true]
    have : num ⟨a.coeff - (b.rescale a.exp).coeff, a.exp⟩ s = num a s - num (b.rescale a.exp) s := by
      unfold num; simp only [r.2]; rw [Int.sub_mul]
    rw [this, r.1]
  · by_cases h2 : a.exp > b.exp
    · have r := rescale_down_num a b.exp s (by omega) hb
      simp only [h1, h2, if_false, if_true]
      have : num ⟨(a.rescale b.exp).coeff - b.coeff, (a.rescale b.exp).exp⟩ s = num (a.rescale b.exp) s - num b s := by
        unfold num; simp only [r.2]; rw [Int.sub_mul]
      rw [this, r.1]
    · have : a.exp = b.exp := by omega
      simp only [h1, h2, if_false]
      unfold num; simp only [this]; rw [Int.sub_mul]

theorem dec_mul_exact (a b : Dec) (s t : Int) (ha : 0 ≤ s + a.exp) (hb : 0 ≤ t + b.exp) :
    num (Dec.mul a b) (s + t) = num a s * num b t := by
  unfold Dec.mul num
  simp only []
  have : s + t + (a.exp + b.exp) = (s + a.exp) + (t + b.exp) := by omega
  rw [this, pow10_add _ _ ha hb]
  rw [Int.mul_assoc, Int.mul_assoc, Int.mul_left_comm b.coeff]

/-- integer operands on which the library's `QuoRem(·, 0)` runs `big.Int.QuoRem` -/
def qrA (a b : Dec) : Int := if a.exp - b.exp < 0 then a.coeff else a.coeff * Dec.pow10 (a.exp - b.exp)
def qrB (a b : Dec) : Int := if a.exp - b.exp < 0 then b.coeff * Dec.pow10 (-(a.exp - b.exp)) else b.coeff

/-- Decimal `div`/`mod`: for a non-zero divisor the library computes an *integer* quotient `q`
    and a remainder `r` with `A = B·q + r`, `|r| < |B|`, `r` carrying the dividend's sign — i.e.
    `q` is the exact quotient truncated toward zero and `r` the matching remainder
    (`A`, `B` are the two decimals brought to a common exponent). -/
theorem dec_quoRem_identity (a b : Dec) (hb : b.coeff ≠ 0) :
    ∃ q r, Dec.quoRem a b 0 = some (⟨q, 0⟩, r) ∧ qrA a b = qrB a b * q + r.coeff ∧
      r.coeff.natAbs < (qrB a b).natAbs ∧ (0 ≤ qrA a b → 0 ≤ r.coeff) ∧ (qrA a b ≤ 0 → r.coeff ≤ 0) := by
  have hp : ∀ n : Int, Dec.pow10 n ≠ 0 := by
    intro n; unfold Dec.pow10; exact Int.pow_ne_zero (by decide)
  have hB : qrB a b ≠ 0 := by
    unfold qrB; split
    · exact Int.mul_ne_zero hb (hp _)
    · exact hb
  refine ⟨(qrA a b).tdiv (qrB a b), ⟨(qrA a b).tmod (qrB a b), if a.exp - b.exp < 0 then a.exp else b.exp⟩, ?_, ?_, ?_, ?_, ?_⟩
  · simp [Dec.quoRem, hb, qrA, qrB]
  · exact (Int.mul_tdiv_add_tmod _ _).symm
  · simp only []; rw [Int.natAbs_tmod]; exact Nat.mod_lt _ (by omega)
  · intro h; exact Int.tmod_nonneg _ h
  · intro h
    have := Int.tmod_nonneg (a := -(qrA a b)) (qrB a b) (by omega)
    rw [Int.neg_tmod] at this; simp only []; omega

/-! ### No arithmetic operator ever traps on numbers (zero divisors, MinInt32, any decimals) -/

theorem evalOp_never_panics (op : ArithOp) (l r : Val)
    (hl : ∀ i, l = .int i → inInt32 i) (hr : ∀ i, r = .int i → inInt32 i) :
    evalOp op l r ≠ .panic := by
  cases op
  case add =>
    cases l <;> cases r <;> simp [evalOp]
    case int.int a b => exact liftInt_ne_panic _ (by rw [int_add_spec a b (hl a rfl) (hr b rfl)]; rfl)
    case quantity.quantity => split <;> simp
  case sub =>
    cases l <;> cases r <;> simp [evalOp]
    case int.int a b => exact liftInt_ne_panic _ (by rw [int_sub_spec a b (hl a rfl) (hr b rfl)]; rfl)
    case quantity.quantity => split <;> simp
  case mul =>
    cases l <;> cases r <;> simp [evalOp]
    case int.int a b => exact liftInt_ne_panic _ (by rw [int_mul_spec a b (hl a rfl) (hr b rfl)]; rfl)
  case div =>
    unfold evalOp
    by_cases hz : isZeroVal r = true
    · simp [hz]
    · simp only [hz]
      cases l <;> cases r <;> simp [Res.ofOption, Res.bind]
      case int.int a b =>
        have : (Dec.div (Dec.ofInt a) (Dec.ofInt b)).isSome := divRound_some _ _ _ (by simpa [isZeroVal, Dec.ofInt] using hz)
        cases h : Dec.div (Dec.ofInt a) (Dec.ofInt b) <;> simp_all
      case dec.dec a b =>
        have : (Dec.div a b).isSome := divRound_some _ _ _ (by simpa [isZeroVal, Dec.isZero] using hz)
        cases h : Dec.div a b <;> simp_all
  case floorDiv =>
    unfold evalOp
    by_cases hz : isZeroVal r = true
    · simp [hz]
    · simp only [hz]
      cases l <;> cases r <;> simp [Res.ofOption, Res.bind]
      case int.int a b =>
        split
        · simp
        · have hb : b ≠ 0 := by simpa [isZeroVal] using hz
          simp [floorDiv, gdiv32, hb]
      case dec.dec a b =>
        have hb : b.coeff ≠ 0 := by simpa [isZeroVal, Dec.isZero] using hz
        simp [decFloorDiv, Dec.quoRem, hb]
        split <;> split <;> simp
  case mod =>
    unfold evalOp
    by_cases hz : isZeroVal r = true
    · simp [hz]
    · simp only [hz]
      cases l <;> cases r <;> simp [Res.ofOption, Res.bind]
      case int.int a b =>
        have hb : b ≠ 0 := by simpa [isZeroVal] using hz
        simp [Gen.IntArith.mod, gmod32, hb]
      case dec.dec a b =>
        have hb : b.coeff ≠ 0 := by simpa [isZeroVal, Dec.isZero] using hz
        simp [Dec.mod, Dec.quoRem, hb]

theorem arith_never_panics (op : ArithOp) (l r : Val)
    (hl : ∀ i, l = .int i → inInt32 i) (hr : ∀ i, r = .int i → inInt32 i) :
    arithExpr op l r ≠ .panic := by
  unfold arithExpr
  intro h
  rw [mapErr_panic] at h
  refine evalOp_never_panics op _ _ ?_ ?_ h
  · intro i hi; cases l <;> cases r <;> simp_all [normalize]
  · intro i hi; cases l <;> cases r <;> simp_all [normalize]

-- non-vacuity
example : arithExpr .add (.int 2147483647) (.int 1) = .ok [] := by decide
example : arithExpr .floorDiv (.int (-7)) (.int 2) = .ok [.int (-3)] := by decide
example : arithExpr .mod (.int (-7)) (.int 2) = .ok [.int (-1)] := by decide
example : arithExpr .div (.int 1) (.int 0) = .ok [] := by decide

/-! ### `round([precision])` in the assembled evaluator (FP.Model.Eval) -/

section Round
open FP.Model.Eval

/-- rounding an Integer is exact: the Decimal of the same value, whatever the precision is -/
theorem round_int_exact (p i : Int) : roundVal p (.int i) = .ok [.dec ⟨i, 0⟩] := rfl

/-- a Decimal that has no digit beyond the requested precision is returned as it is — the same value and the
    same representation (nothing is padded, however large the precision is) -/
theorem round_noop (p : Int) (d : Dec) (h : -d.exp ≤ p) : roundVal p (.dec d) = .ok [.dec d] := by
  simp [roundVal, roundTo, h]

/-- rounding never invents digits: the result has at most `p` decimal places (p ≥ 0) -/
theorem round_places (p : Int) (d : Dec) (hp : 0 ≤ p) : -(roundTo p d).exp ≤ p := by
  unfold roundTo
  split
  · assumption
  · rename_i h
    unfold Dec.round
    split
    · omega
    · have hr : (d.rescale (-p - 1)).exp = -p - 1 := by
        unfold Dec.rescale
        split
        · assumption
        · split <;> rfl
      show -((d.rescale (-p - 1)).exp + 1) ≤ p
      omega

/-- on whole expressions: `round()` / `round(p)` of no item is no item, of several items an error; a negative
    precision is an error and never a value; the precision must be a single Integer -/
theorem expr_round_cardinality (env : Env) (a : E) :
    eval env (.fn "round" .argNil) [] = .ok [] ∧ eval env (.fn "round" (.argCons a .argNil)) [] = .ok [] ∧
    (∀ x y r, eval env (.fn "round" .argNil) (x :: y :: r) = .err "not-singleton") ∧
    (∀ x y r, eval env (.fn "round" (.argCons a .argNil)) (x :: y :: r) = .err "not-singleton") := by
  simp [eval, isClockFn, apply0, apply1]

theorem expr_round_negative_precision (env : Env) (a : E) (v : Val) (p : Int) (hp : p < 0)
    (ha : eval env a [v] = .ok [.int p]) :
    eval env (.fn "round" (.argCons a .argNil)) [v] = .err "negative-precision" := by
  simp [eval, apply1, ha, Res.bind, toInt32, hp]

/-- an empty precision argument is an error, never the default precision (cf. C07: no fabricated value) -/
theorem expr_round_empty_precision (env : Env) (a : E) (v : Val) (ha : eval env a [v] = .ok []) :
    eval env (.fn "round" (.argCons a .argNil)) [v] = .err "not-singleton" := by
  simp [eval, apply1, ha, Res.bind, toInt32]

example : roundVal 1 (.dec ⟨125, -2⟩) = .ok [.dec ⟨13, -1⟩] := by decide +kernel
example : roundVal 1 (.dec ⟨-125, -2⟩) = .ok [.dec ⟨-13, -1⟩] := by decide +kernel
example : roundVal 0 (.dec ⟨25, -1⟩) = .ok [.dec ⟨3, 0⟩] := by decide +kernel

end Round

/-! ### `power(exponent)` on two Integers in the assembled evaluator -/

section Power
open FP.Model.Eval

/-- any base other than 0, 1, -1 raised to the 32nd power or beyond lies outside the Integer range -/
theorem big_pow_out_of_range (b : Int) (n : Nat) (hb : 2 ≤ b.natAbs) (hn : 32 ≤ n) :
    b ^ n > maxInt32 ∨ b ^ n < minInt32 := by
  have h1 : (b ^ n).natAbs = b.natAbs ^ n := Int.natAbs_pow b n
  have h2 : 2 ^ 32 ≤ b.natAbs ^ n :=
    calc 2 ^ 32 ≤ 2 ^ n := Nat.pow_le_pow_right (by decide) hn
      _ ≤ b.natAbs ^ n := Nat.pow_le_pow_left hb n
  have h3 : 2 ^ 32 ≤ (b ^ n).natAbs := by rw [h1]; exact h2
  simp only [maxInt32, minInt32]
  omega

/-- `power()` on two Integers with a non-negative exponent is EXACT OR EMPTY: the mathematical power when it is
    an Integer of the 32-bit range, empty otherwise — never a wrapped number -/
theorem power_int_exact_or_empty (b e : Int) (he : 0 ≤ e) :
    powVal b e = (if b ^ e.toNat > maxInt32 ∨ b ^ e.toNat < minInt32 then [] else [.int (b ^ e.toNat)]) := by
  have hne : ¬ e < 0 := by omega
  unfold powVal powInt
  simp only [hne, if_false]
  by_cases h0 : b = 0
  · subst h0
    by_cases hz : e = 0
    · subst hz; simp [maxInt32, minInt32]
    · have : e.toNat ≠ 0 := by omega
      simp [hz, Int.zero_pow this, maxInt32, minInt32]
  · by_cases h1 : b = 1
    · subst h1; simp [maxInt32, minInt32, Int.one_pow]
    · by_cases hm : b = -1
      · subst hm
        have hpow : ((-1 : Int) ^ e.toNat) = if e % 2 = 0 then 1 else -1 := by
          have hcases : e.toNat % 2 = 0 ∨ e.toNat % 2 = 1 := by omega
          rcases hcases with h | h
          · have : e % 2 = 0 := by omega
            rw [if_pos this]
            have hx : e.toNat = 2 * (e.toNat / 2) := by omega
            rw [hx, Int.pow_mul]; simp [Int.one_pow]
          · have : ¬ e % 2 = 0 := by omega
            rw [if_neg this]
            have hx : e.toNat = 2 * (e.toNat / 2) + 1 := by omega
            rw [hx, Int.pow_succ, Int.pow_mul]; simp [Int.one_pow]
        rw [hpow]
        by_cases hev : e % 2 = 0
        · simp [hev, maxInt32, minInt32]
        · simp [hev, maxInt32, minInt32]
      · simp only [h0, h1, hm, if_false]
        have hb : 2 ≤ b.natAbs := by omega
        by_cases hbig : e > 31
        · simp only [hbig, if_true]
          have := big_pow_out_of_range b e.toNat hb (by omega)
          simp [this]
        · simp only [hbig, if_false]
          by_cases hr : b ^ e.toNat > maxInt32 ∨ b ^ e.toNat < minInt32
          · simp [hr]
          · simp [hr]

/-- a negative exponent gives the Integer 0 — what the implementation does (the reciprocal is not an Integer;
    FHIRPath itself would give a Decimal); recorded here so that a change of it is seen -/
theorem power_int_negative_exponent (b e : Int) (he : e < 0) : powVal b e = [.int 0] := by
  simp [powVal, he]

example : powVal 2 31 = [] ∧ powVal 2 30 = [.int 1073741824] ∧ powVal (-2) 31 = [.int (-2147483648)] ∧
    powVal 46341 2 = [] ∧ powVal (-1) 2147483647 = [.int (-1)] ∧ powVal 3 2147483647 = [] := by decide +kernel

end Power

end FP.Props.C08
