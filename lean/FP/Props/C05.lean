/-
  C05 — equality and ordering operators form one consistent partial order.
  Model: FP.Model.Compare (hand model of cmp.go / per-type TryEqual, Less / Collection.TryEqual /
  EqualityExpression / ComparisonExpression), precision maps regenerated from layouts.go.
  Theorems are stated on the model the correspondence ties to the code.  The one recorded
  exclusion (known finding C05-number-quantity-promotion) is visible in the hypotheses: laws about
  `<` across operands are stated for operands of one kind (number / string / temporal kind /
  quantity of one unit), which is exactly where `Normalize` does not re-unit a number.
-/
import FP.Model.Compare
import FP.Lemmas.Compare
import FP.Lemmas.Dec
import FP.Model.LayoutPrec
import FP.Model.Eval
namespace FP.Props.C05
open FP FP.Model FP.Lemmas

/-! ### Collections: equal iff same length and EVERY corresponding pair is equal -/

/-- what one position contributes to `Collection.TryEqual` -/
def pairEq (x y : Item) : TE :=
  match x, y with
  | .complex d, .complex e => (d == e, true)
  | .prim a, .prim b =>
    let a' := normalize a b
    let b' := normalize b a'
    tryEqual a' b'
  | _, _ => (false, true)

theorem collPairs_cons (x y : Item) (xs ys : List Item) :
    collPairs (x :: xs) (y :: ys) =
      (let r := pairEq x y
       if !r.2 then (false, false) else if !r.1 then (false, true) else collPairs xs ys) := by
  cases x <;> cases y <;> simp [collPairs, pairEq]

theorem collPairs_true_iff (c d : List Item) (h : c.length = d.length) :
    collPairs c d = (true, true) ↔ ∀ p ∈ c.zip d, pairEq p.1 p.2 = (true, true) := by
  induction c generalizing d with
  | nil => cases d <;> simp [collPairs]
  | cons x xs ih =>
    cases d with
    | nil => simp at h
    | cons y ys =>
      simp at h
      rw [collPairs_cons]
      simp only [List.zip_cons_cons, List.mem_cons, forall_eq_or_imp]
      rw [← ih ys h]
      generalize pairEq x y = r
      rcases r with ⟨v, hv⟩
      cases v <;> cases hv <;> simp

/-- Two collections are equal iff they have the same length and every corresponding pair of
    items is equal — every pair, for collections of any length. -/
theorem coll_eq_true_iff (c d : List Item) :
    collTryEqual c d = (true, true) ↔ c.length = d.length ∧ ∀ p ∈ c.zip d, pairEq p.1 p.2 = (true, true) := by
  unfold collTryEqual
  by_cases h : c.length = d.length
  · simp [h, collPairs_true_iff c d h]
  · simp [h]

theorem coll_length_mismatch_false (c d : List Item) (h : c.length ≠ d.length) :
    collTryEqual c d = (false, true) := by simp [collTryEqual, h]

/-- complex elements are compared structurally at every position -/
theorem coll_complex_all (ds es : List String) (h : ds.length = es.length) :
    collTryEqual (ds.map .complex) (es.map .complex) = (true, true) ↔ ds = es := by
  unfold collTryEqual
  simp only [List.length_map, h, bne_self_eq_false, Bool.false_eq_true, if_false]
  induction ds generalizing es with
  | nil => cases es <;> simp_all [collPairs]
  | cons d ds ih =>
    cases es with
    | nil => simp at h
    | cons e es =>
      simp at h
      by_cases hde : d = e
      · simp [collPairs, hde, ih es h]
      · simp [collPairs, hde]

/-! ### `=` / `!=` -/

theorem eq_empty_operand (n : Bool) (l r : List Item) (h : l = [] ∨ r = []) : eqExpr n l r = [] := by
  rcases h with h | h <;> subst h <;> simp [eqExpr]

/-- `a != b` is the negation of `a = b`, or both are empty. -/
theorem ne_is_negation (l r : List Item) : eqExpr true l r = (eqExpr false l r).map (!·) := by
  unfold eqExpr
  by_cases h : (l.isEmpty || r.isEmpty) = true
  · simp [h]
  · simp only [h]
    by_cases h2 : (collTryEqual l r).2 <;> simp [h2]

/-! ### `<  <=  >  >=` on single items -/

/-- `a <= b` iff not `a > b`; `a >= b` iff not `a < b` (same emptiness and errors). -/
theorem le_is_not_gt (l r : List (Option Val)) :
    cmpExpr .le l r = (cmpExpr .gt l r).bind (fun b => .ok (b.map (!·))) := by
  unfold cmpExpr
  rcases cmpCore l r with (_ | ⟨_, _⟩) | _ | _ <;> simp [Res.bind, pick]

theorem ge_is_not_lt (l r : List (Option Val)) :
    cmpExpr .ge l r = (cmpExpr .lt l r).bind (fun b => .ok (b.map (!·))) := by
  unfold cmpExpr
  rcases cmpCore l r with (_ | ⟨_, _⟩) | _ | _ <;> simp [Res.bind, pick]

theorem cmp_empty_operand (op : CmpOp) (l r : List (Option Val)) (h : l = [] ∨ r = []) :
    cmpExpr op l r = .ok [] := by
  rcases h with h | h <;> subst h <;> simp [cmpExpr, cmpCore]

/-! ### Temporal values: the comparison is a consistent strict partial order -/

theorem layout_ne_symm {a b : Tmp} (h : ¬ a.layout = b.layout) : ¬ b.layout = a.layout := fun e => h e.symm

theorem instPath_symm (a b : Tmp) : instPath a b = instPath b a := by
  unfold instPath
  by_cases h : a.layout = b.layout
  · rw [h]
  · have h' := layout_ne_symm h
    have e1 : (a.layout == b.layout) = false := by simp [h]
    have e2 : (b.layout == a.layout) = false := by simp [h']
    rw [e1, e2]; rfl

theorem instPath_trans {a b c : Tmp} (hab : instPath a b = true) (hbc : instPath b c = true) : instPath a c = true := by
  unfold instPath at *
  simp only [Bool.and_eq_true, beq_iff_eq, bne_iff_ne, ne_eq] at *
  exact ⟨hab.1.trans hbc.1, hab.2⟩

/-- never both `a < b` and `b < a` -/
theorem tmp_lt_asymm (k : TKind) (a b : Tmp) : tmpLess k a b = .ok true → tmpLess k b a ≠ .ok true := by
  unfold tmpLess
  by_cases hl : instPath a b = true
  · simp only [hl, instPath_symm b a, if_true]
    intro h h2
    simp only [Except.ok.injEq] at h h2
    rw [lexLt_asymm _ _ h] at h2; exact Bool.false_ne_true h2
  · simp only [hl, instPath_symm b a, Bool.false_eq_true, if_false]
    intro h
    rw [slowLess_true_iff] at h
    rw [ne_eq, slowLess_true_iff, Nat.min_comm (prec k b) (prec k a)]
    exact ltLoopF_asymm k _ _ 0 _ h

/-- `a < b` excludes `a = b` -/
theorem tmp_lt_excludes_eq (k : TKind) (a b : Tmp) : tmpLess k a b = .ok true → tmpTryEqual k a b ≠ (true, true) := by
  unfold tmpLess tmpTryEqual
  by_cases hl : instPath a b = true
  · simp only [hl, if_true]
    intro h e
    simp only [Except.ok.injEq] at h
    simp only [Prod.mk.injEq, beq_iff_eq, and_true] at e
    exact lexLt_ne _ _ h e
  · simp only [hl, Bool.false_eq_true, if_false]
    intro h e
    rw [slowLess_true_iff] at h
    rw [slowEq_true_iff] at e
    rcases e with e | ⟨e, _⟩
    · exact ltLoopF_excludes_eq k _ _ 0 _ h e
    · rw [(ltLoopF_none_iff k _ _ 0 _).mpr e] at h; cases h

/-- "no value" is symmetric: `a < b` is empty (mismatched precision) iff `b < a` is -/
theorem tmp_lt_error_symm (k : TKind) (a b : Tmp) (e : String) :
    tmpLess k a b = .error e ↔ tmpLess k b a = .error e := by
  unfold tmpLess
  by_cases hl : instPath a b = true
  · simp [hl, instPath_symm b a]
  · simp only [hl, instPath_symm b a, Bool.false_eq_true, if_false]
    rw [slowLess_error_iff, slowLess_error_iff, Nat.min_comm (prec k b) (prec k a),
      ltLoopF_none_symm k (nth a.comps) (nth b.comps)]
    constructor
    · intro h; exact ⟨h.1, fun c => h.2.1 ⟨c.1, c.2.symm⟩, h.2.2⟩
    · intro h; exact ⟨h.1, fun c => h.2.1 ⟨c.1, c.2.symm⟩, h.2.2⟩

/-- `<` is transitive on the component-wise path, across any mix of precisions -/
theorem tmp_lt_trans_components (k : TKind) (a b c : Tmp)
    (hab : instPath a b = false) (hbc : instPath b c = false) (hac : instPath a c = false) :
    tmpLess k a b = .ok true → tmpLess k b c = .ok true → tmpLess k a c = .ok true := by
  unfold tmpLess
  simp only [hab, hbc, hac, if_false, Bool.false_eq_true]
  rw [slowLess_true_iff, slowLess_true_iff, slowLess_true_iff]
  exact ltLoopF_trans k _ _ _ 0 _ _ _ (by omega)

/-- HOUR PRECISION WITH AN OFFSET: two values of that one layout are compared component-wise after
    offset normalisation, like values of different layouts — `T10+00:30`, `T09Z` and `T09` are then
    pairwise equal, where comparing the instants made the first two differ although each equals
    the third -/
theorem hour_offset_layout_compares_components (k : TKind) (a b : Tmp) (h : a.layout = hourOffsetLayout) :
    tmpTryEqual k a b = slowEq k a b ∧ tmpLess k a b = slowLess k a b := by
  simp [tmpTryEqual, tmpLess, instPath, h]

/-- same layout: instants are compared, a strict order -/
theorem tmp_lt_trans_same_layout (k : TKind) (a b c : Tmp) (hab : instPath a b = true) (hbc : instPath b c = true) :
    tmpLess k a b = .ok true → tmpLess k b c = .ok true → tmpLess k a c = .ok true := by
  unfold tmpLess
  simp only [hab, hbc, instPath_trans hab hbc, if_true, Except.ok.injEq]
  exact lexLt_trans _ _ _

/-- temporal `=` is symmetric (value and has-value) -/
theorem tmp_eq_symm (k : TKind) (a b : Tmp) : tmpTryEqual k a b = tmpTryEqual k b a := by
  unfold tmpTryEqual
  by_cases hl : instPath a b = true
  · simp only [hl, instPath_symm b a, if_true, Prod.mk.injEq, and_true]
    by_cases e : a.inst = b.inst
    · rw [e]
    · have e' : ¬ b.inst = a.inst := fun h => e h.symm
      have h1 : (a.inst == b.inst) = false := by simp [e]
      have h2 : (b.inst == a.inst) = false := by simp [e']
      rw [h1, h2]
  · simp only [hl, instPath_symm b a, Bool.false_eq_true, if_false]
    unfold slowEq eqLoop
    rw [Nat.min_comm (prec k b) (prec k a), eqLoopF_symm]
    cases eqLoopF k (nth b.comps) (nth a.comps) 0 (min (prec k a) (prec k b) + 1) with
    | some r => rfl
    | none =>
      by_cases c : prec k a = prec k b
      · rw [c]
      · have c' : ¬ prec k b = prec k a := fun h => c h.symm
        simp [c, c']

/-! ### Numbers: Integer and Decimal compare by exact value -/

def scaleFor (a b c : Dec) : Int :=
  (if a.exp < 0 then -a.exp else 0) + (if b.exp < 0 then -b.exp else 0) + (if c.exp < 0 then -c.exp else 0)

theorem dec_lt_iff (a b : Dec) (s : Int) (ha : 0 ≤ s + a.exp) (hb : 0 ≤ s + b.exp) :
    Dec.lt a b = true ↔ num a s < num b s := by
  unfold Dec.lt; rw [cmp_spec a b s ha hb]
  by_cases h1 : num a s < num b s
  · simp [h1]
  · by_cases h2 : num a s = num b s <;> simp [h1, h2]

theorem dec_eq_iff (a b : Dec) (s : Int) (ha : 0 ≤ s + a.exp) (hb : 0 ≤ s + b.exp) :
    Dec.eq a b = true ↔ num a s = num b s := by
  unfold Dec.eq; rw [cmp_spec a b s ha hb]
  by_cases h1 : num a s < num b s
  · simp [h1]; omega
  · by_cases h2 : num a s = num b s <;> simp [h1, h2]

/-- decimal `<` is a strict order on exact values: irreflexive, asymmetric, transitive;
    exactly one of `<`, `=`, `>` holds -/
theorem dec_lt_trans (a b c : Dec) : Dec.lt a b = true → Dec.lt b c = true → Dec.lt a c = true := by
  have hs : 0 ≤ scaleFor a b c + a.exp ∧ 0 ≤ scaleFor a b c + b.exp ∧ 0 ≤ scaleFor a b c + c.exp := by
    unfold scaleFor; (repeat' split) <;> omega
  rw [dec_lt_iff a b _ hs.1 hs.2.1, dec_lt_iff b c _ hs.2.1 hs.2.2, dec_lt_iff a c _ hs.1 hs.2.2]
  omega

theorem dec_trichotomy (a b : Dec) :
    (Dec.lt a b = true ∧ Dec.eq a b = false ∧ Dec.lt b a = false) ∨
    (Dec.lt a b = false ∧ Dec.eq a b = true ∧ Dec.lt b a = false) ∨
    (Dec.lt a b = false ∧ Dec.eq a b = false ∧ Dec.lt b a = true) := by
  have hs : 0 ≤ scaleFor a b a + a.exp ∧ 0 ≤ scaleFor a b a + b.exp := by
    unfold scaleFor; (repeat' split) <;> omega
  have l1 := dec_lt_iff a b _ hs.1 hs.2
  have l2 := dec_lt_iff b a _ hs.2 hs.1
  have e1 := dec_eq_iff a b _ hs.1 hs.2
  rcases Int.lt_trichotomy (num a (scaleFor a b a)) (num b (scaleFor a b a)) with h | h | h
  · left
    refine ⟨l1.mpr h, ?_, ?_⟩
    · cases he : Dec.eq a b <;> simp; have := e1.mp he; omega
    · cases hl : Dec.lt b a <;> simp; have := l2.mp hl; omega
  · right; left
    refine ⟨?_, e1.mpr h, ?_⟩
    · cases hl : Dec.lt a b <;> simp; have := l1.mp hl; omega
    · cases hl : Dec.lt b a <;> simp; have := l2.mp hl; omega
  · right; right
    refine ⟨?_, ?_, l2.mpr h⟩
    · cases hl : Dec.lt a b <;> simp; have := l1.mp hl; omega
    · cases he : Dec.eq a b <;> simp; have := e1.mp he; omega

theorem dec_eq_symm (a b : Dec) : Dec.eq a b = Dec.eq b a := by
  have hs : 0 ≤ scaleFor a b a + a.exp ∧ 0 ≤ scaleFor a b a + b.exp := by
    unfold scaleFor; (repeat' split) <;> omega
  have e1 := dec_eq_iff a b _ hs.1 hs.2
  have e2 := dec_eq_iff b a _ hs.2 hs.1
  cases h1 : Dec.eq a b <;> cases h2 : Dec.eq b a <;> simp
  · have := e2.mp h2; have := e1.mpr this.symm; simp [h1] at this
  · have := e1.mp h1; have := e2.mpr this.symm; simp [h2] at this

/-- Integers promoted to Decimals compare by value: `1 = 1.0 = 1.00` -/
theorem int_dec_eq (i : Int) (d : Dec) (hd : d.exp ≤ 0) :
    tryEqual (.int i) (.dec d) = (decide (i * Dec.pow10 (-d.exp) = d.coeff), true) := by
  have h := dec_eq_iff (Dec.ofInt i) d (-d.exp) (by simp [Dec.ofInt]; omega) (by omega)
  have hn1 : num (Dec.ofInt i) (-d.exp) = i * Dec.pow10 (-d.exp) := by simp [num, Dec.ofInt]
  have hn2 : num d (-d.exp) = d.coeff := by
    have : -d.exp + d.exp = 0 := by omega
    simp [num, this, Dec.pow10]
  rw [hn1, hn2] at h
  simp only [tryEqual, normalize, valTryEqual]
  congr 1
  cases he : Dec.eq (Dec.ofInt i) d
  · have : ¬ (i * Dec.pow10 (-d.exp) = d.coeff) := fun e => by have := h.mpr e; simp [he] at this
    simp [this]
  · simp [h.mp he]

-- non-vacuity
example : collTryEqual [.complex "A", .complex "B"] [.complex "A", .complex "C"] = (false, true) := by decide
example : eqExpr false [.prim (.int 1)] [.prim (.dec ⟨100, -2⟩)] = [true] := by decide
example : cmpExpr .lt [some (.int 1)] [some (.dec ⟨15, -1⟩)] = .ok [true] := by decide

open FP.Gen.Layouts in
/-- THE PRECISION TABLES ARE THE LAYOUTS' OWN: every entry of the regenerated `dateMap`, `dateTimeMap` and `timeMap`
    — which decide when two values have "the same precision" and when a comparison is empty — gives its layout the
    precision the layout's text has, with or without an offset.  (The comparison model reads these tables, so a wrong
    entry would move model and implementation together; this is what notices it.) -/
theorem precision_tables_are_the_layouts :
    dateMap.all (fun p => p.2 == Text.impliedPrecision (Text.goLayout p.1.toList)) = true ∧
    dateTimeMap.all (fun p => p.2 == Text.impliedPrecision (Text.goLayout p.1.toList)) = true ∧
    timeMap.all (fun p => p.2 + 3 == Text.impliedPrecision (Text.goLayout p.1.toList)) = true := by decide +kernel

/-! ### the operators on whole expressions (the assembled evaluator, FP.Model.Eval) -/

section Expr
open FP.Model.Eval

/-- the Boolean items of a result negated (other items cannot occur in the result of a comparison) -/
def notVals (c : List Val) : List Val := c.map fun v => match v with | .bool b => .bool (!b) | v => v

theorem notVals_bools (l : List Bool) : notVals (bools l) = bools (l.map (!·)) := by
  simp [notVals, bools, List.map_map, Function.comp_def]

/-- whatever the operand expressions are (paths, arithmetic, calls, literals of any type — temporal
    and quantity literals included), `l != r` is the negation of `l = r`: same emptiness, same errors -/
theorem expr_ne_is_negation (env : Env) (l r : E) (input : List Val) :
    eval env (.eq true l r) input = mapRes notVals (eval env (.eq false l r) input) := by
  simp only [eval]
  cases eval env l input <;> simp [Res.bind, mapRes]
  cases eval env r input <;> simp [Res.bind, mapRes, ne_is_negation, notVals_bools]

/-- `l <= r` is the negation of `l > r` and `l >= r` of `l < r`, on whole expressions -/
theorem expr_le_is_not_gt (env : Env) (l r : E) (input : List Val) :
    eval env (.cmp .le l r) input = mapRes notVals (eval env (.cmp .gt l r) input) ∧
    eval env (.cmp .ge l r) input = mapRes notVals (eval env (.cmp .lt l r) input) := by
  simp only [eval]
  cases eval env l input <;> simp [Res.bind, mapRes]
  cases eval env r input <;> simp [Res.bind, mapRes, le_is_not_gt, ge_is_not_lt]
  constructor
  · cases cmpExpr .gt _ _ <;> simp [Res.bind, mapRes, notVals_bools]
  · cases cmpExpr .lt _ _ <;> simp [Res.bind, mapRes, notVals_bools]

/-- temporal literals through the whole pipeline, by kernel evaluation of the source texts: offsets are
    normalised before instants are compared, a precision mismatch is empty, hour-precision values with an
    offset are compared after normalisation -/
example : run FP.Gen.FuncTable.baseTable "@2020-01-01T10:00:00+05:30 < @2020-01-01T05:00:00Z" [] [] = .result [.bool true] ∧
    run FP.Gen.FuncTable.baseTable "@2020-01 < @2020-01-15" [] [] = .result [] ∧
    run FP.Gen.FuncTable.baseTable "@2020-01-01T10+00:30 = @2020-01-01T09Z" [] [] = .result [.bool true] ∧
    run FP.Gen.FuncTable.baseTable "@T10:30 != @T10:30:00" [] [] = .result [] := by decide +kernel

end Expr


end FP.Props.C05
