/-
  C02 — path navigation returns exactly the elements of the resource's FHIR JSON tree.
  Step-level theorems on the model of `FieldExpression.Evaluate`; the schema-wide hypothesis
  ("every element of every R4 message is found under its JSON name") is evaluated by the driver over
  every real descriptor, and the real evaluator is compared with the model and with
  google/fhir's JSON rendering on generated resources.
-/
import FP.Model.Navigate
namespace FP.Props.C02
open FP FP.Model

/-- well-formed request: the name passes the camelCase gate, is the JSON name of field `f` of the
    message, no field's proto name shadows it, and the special cases do not apply -/
structure Reaches (name snake : String) (m : MsgDesc) (f : FieldDesc) : Prop where
  gate : gateOk name m.dateLike = true
  found : (m.fields.find? (fun g => g.proto == snake) = some f) ∨
          (m.fields.find? (fun g => g.proto == snake) = none ∧
            ¬ (snake == "reference" && m.isReference) = true ∧ ¬ (snake == "value" && m.dateLike) = true ∧
            m.fields.find? (fun g => g.json == name) = some f)

/-- an element name that reaches field `f` yields exactly the values stored under `f`, in order,
    with choice wrappers replaced by the chosen value and contained resources by the resource -/
theorem step_yields_field_values (name snake : String) (id : Nat) (m : MsgDesc) (f : FieldDesc)
    (h : Reaches name snake m f) (hmsg : f.isMsg = true) :
    fieldStep name snake id m = .ok (f.vals.flatMap unwrapChild) := by
  unfold fieldStep
  simp only [h.gate, Bool.not_true, Bool.false_eq_true, if_false]
  rcases h.found with hf | ⟨hn, hr, hv, hj⟩
  · simp [hf, fieldStep.emit, hmsg]
  · simp only [hn]
    simp only [hr, hv, if_false, hj, fieldStep.emit, hmsg, Bool.not_true, Bool.false_eq_true]

/-- choice elements are reached by their base name and yield the chosen value -/
theorem choice_yields_chosen (id c : Nat) : unwrapChild (.choice id (some c)) = [.node c] := rfl
/-- contained and bundled resources are traversed transparently -/
theorem contained_transparent (id r : Nat) : unwrapChild (.contained id (some r)) = [.node r] := rfl
/-- an empty wrapper contributes no element (and no failure) -/
theorem empty_wrapper_yields_nothing (id : Nat) : unwrapChild (.contained id none) = [] := rfl

/-- a name that is not an element of the type fails with ErrInvalidField instead of yielding empty -/
theorem unknown_name_invalid_field (name snake : String) (id : Nat) (m : MsgDesc)
    (h1 : m.fields.find? (fun g => g.proto == snake) = none)
    (h2 : m.fields.find? (fun g => g.json == name) = none)
    (h3 : m.fields.find? (fun g => g.proto == snake ++ "_value") = none)
    (hr : ¬ (snake == "reference" && m.isReference) = true) (hv : ¬ (snake == "value" && m.dateLike) = true) :
    fieldStep name snake id m = .err "invalid-field" := by
  unfold fieldStep
  by_cases hg : gateOk name m.dateLike = true
  · simp only [hg, Bool.not_true, Bool.false_eq_true, if_false, h1, hr, hv, h2, h3]
  · simp [hg]

/-- snake_case and capitalised names are rejected -/
theorem snake_name_rejected (name snake : String) (id : Nat) (m : MsgDesc) (h : name.toList.contains '_' = true) :
    fieldStep name snake id m = .err "invalid-field" := by
  have hg : gateOk name m.dateLike = false := by
    unfold gateOk; rw [h]; rfl
  simp [fieldStep, hg]

/-- same number, document order, repeated elements flattened: the step over a collection is the
    in-order concatenation of the steps over its items -/
theorem step_flattens_in_order (name snake : String) (ms : List (Nat × MsgDesc)) (outs : List (List Out))
    (h : ms.map (fun p => fieldStep name snake p.1 p.2) = outs.map .ok) :
    fieldStepAll name snake ms = .ok outs.flatten := by
  induction ms generalizing outs with
  | nil => cases outs <;> simp_all [fieldStepAll]
  | cons p ps ih =>
    cases outs with
    | nil => simp at h
    | cons o os =>
      simp only [List.map_cons, List.cons.injEq] at h
      obtain ⟨h1, h2⟩ := h
      obtain ⟨id, m⟩ := p
      simp only [fieldStepAll]
      simp only at h1
      rw [h1, ih os h2]
      simp

/-- an error on any item is an error of the step (never silently skipped) -/
theorem step_error_propagates (name snake : String) (pre : List (Nat × MsgDesc)) (id : Nat) (m : MsgDesc) (post : List (Nat × MsgDesc))
    (hpre : ∀ p ∈ pre, ∃ o, fieldStep name snake p.1 p.2 = .ok o) (e : String) (he : fieldStep name snake id m = .err e) :
    fieldStepAll name snake (pre ++ (id, m) :: post) = .err e := by
  induction pre with
  | nil => simp [fieldStepAll, he]
  | cons p ps ih =>
    obtain ⟨o, ho⟩ := hpre p (by simp)
    have := ih (fun q hq => hpre q (List.mem_cons_of_mem _ hq))
    obtain ⟨pid, pm⟩ := p
    simp only [List.cons_append, fieldStepAll]
    simp only at ho
    rw [ho, this]

example : fieldStep "deceased" "deceased" 0
    ⟨"Patient", false, false, none, [⟨"deceased", "deceased", false, true, [.choice 5 (some 6)]⟩]⟩ = .ok [.node 6] := by decide
example : fieldStep "nosuch" "nosuch" 0 ⟨"Patient", false, false, none, []⟩ = .err "invalid-field" := by decide

end FP.Props.C02
