/-
  C02 — path navigation returns exactly the elements of the resource's FHIR JSON tree.
  Step-level theorems on the model of `FieldExpression.Evaluate`, and a schema-wide theorem over
  the regenerated descriptor table FP.Gen.NavSchema: every element of every R4 message type is
  found, under its JSON name, at its own field.  The real evaluator is compared with the model
  and with google/fhir's JSON rendering on generated resources.
-/
import FP.Model.Navigate
import FP.Gen.NavSchema
import FP.Lemmas.Path
namespace FP.Props.C02
open FP FP.Model FP.Gen.NavSchema

/-- an element name that lands on field `i` yields exactly the values stored under that field, in
    order, with choice wrappers replaced by the chosen value and wrapped resources by the resource -/
theorem step_yields_field_values (name snake : String) (id : Nat) (m : MsgDesc) (i : Nat) (f : FieldDesc)
    (hg : gateOk name m.dateLike = true)
    (hs : resolveSlot m.names m.isReference m.dateLike name snake = .field i)
    (hf : m.fields[i]? = some f) (hmsg : f.isMsg = true) :
    fieldStep name snake id m = .ok (f.vals.flatMap unwrapChild) := by
  simp [fieldStep, hg, hs, hf, emit, hmsg]

/-- the value field of a primitive yields the primitive's own System value -/
theorem step_yields_primitive_value (name snake : String) (id : Nat) (m : MsgDesc) (i : Nat) (f : FieldDesc)
    (hg : gateOk name m.dateLike = true)
    (hs : resolveSlot m.names m.isReference m.dateLike name snake = .field i)
    (hf : m.fields[i]? = some f) (hmsg : f.isMsg = false) (hp : m.primOk = true) (hv : m.noValue = false) :
    fieldStep name snake id m = .ok [.prim id] := by
  simp [fieldStep, hg, hs, hf, emit, hmsg, hp, hv]

/-- a primitive that has an id or extensions but NO VALUE yields nothing for its value — not the zero value of
    the proto — whether the value is a field of the message or the rendered text of a date / time -/
theorem valueless_primitive_has_no_value (name snake : String) (id : Nat) (m : MsgDesc) (hv : m.noValue = true)
    (hg : gateOk name m.dateLike = true) :
    (∀ i f, resolveSlot m.names m.isReference m.dateLike name snake = .field i → m.fields[i]? = some f → f.isMsg = false →
      fieldStep name snake id m = .ok []) ∧
    (resolveSlot m.names m.isReference m.dateLike name snake = .synthValue → fieldStep name snake id m = .ok []) := by
  refine ⟨fun i f hs hf hmsg => ?_, fun hs => ?_⟩
  · simp [fieldStep, hg, hs, hf, emit, hmsg, hv]
  · simp [fieldStep, hg, hs, hv]

/-- the marker google/fhir's parser puts on such a primitive is never yielded as an element: the extensions of the
    element are the other values of the field, in order -/
theorem marker_is_no_element (pre post : List Child) (k : Nat) :
    (pre ++ .marker k :: post).flatMap unwrapChild = pre.flatMap unwrapChild ++ post.flatMap unwrapChild := by
  simp [List.flatMap_append, unwrapChild]

/-- choice elements are reached by their base name and yield the chosen value -/
theorem choice_yields_chosen (id c : Nat) : unwrapChild (.choice id (some c)) = [.node c] := rfl
/-- contained and bundled resources are traversed transparently -/
theorem contained_transparent (id r : Nat) : unwrapChild (.contained id (some r)) = [.node r] := rfl
/-- an empty wrapper contributes no element (and no failure) -/
theorem empty_wrapper_yields_nothing (id : Nat) : unwrapChild (.contained id none) = [] := rfl

/-- a typed reference reads back as the synthesised string, exactly once -/
theorem reference_reads_back (id s : Nat) (m : MsgDesc) (hr : m.isReference = true) (hd : m.dateLike = false)
    (hn : findProto m.names "reference" = none) (hs : m.refString = some s) :
    fieldStep "reference" "reference" id m = .ok [.synthRef s] := by
  have hg : gateOk "reference" m.dateLike = true := by rw [hd]; decide
  simp [fieldStep, hg, resolveSlot, hn, hr, hs]

/-- a request lands nowhere exactly when no lookup of the chain finds a field and it is not one of
    the synthesised names -/
theorem resolve_invalid_iff (names : List (String × String)) (isRef dl : Bool) (name snake : String) :
    resolveSlot names isRef dl name snake = .invalid ↔
      (findProto names snake = none ∧ findJson names name = none ∧ findProto names (snake ++ "_value") = none ∧
       ¬ (snake == "reference" && isRef) = true ∧ ¬ (snake == "value" && dl) = true) := by
  unfold resolveSlot
  constructor
  · intro h
    split at h
    · simp at h
    · rename_i h1
      split at h
      · simp at h
      · rename_i hr
        split at h
        · simp at h
        · rename_i hv
          split at h
          · simp at h
          · rename_i h2
            split at h
            · simp at h
            · rename_i h3
              exact ⟨h1, h2, h3, hr, hv⟩
  · rintro ⟨h1, h2, h3, hr, hv⟩
    simp only [h1, h2, h3]
    simp [hr, hv]

/-- a name that is not an element of the type fails with ErrInvalidField instead of yielding empty -/
theorem unknown_name_invalid_field (name snake : String) (id : Nat) (m : MsgDesc)
    (h : resolveSlot m.names m.isReference m.dateLike name snake = .invalid) :
    fieldStep name snake id m = .err "invalid-field" := by
  unfold fieldStep
  by_cases hg : gateOk name m.dateLike = true
  · simp [hg, h]
  · simp [hg]

/-- snake_case names are rejected -/
theorem snake_name_rejected (name snake : String) (id : Nat) (m : MsgDesc) (h : name.toList.contains '_' = true) :
    fieldStep name snake id m = .err "invalid-field" := by
  have hg : gateOk name m.dateLike = false := by
    unfold gateOk; rw [h]; rfl
  simp [fieldStep, hg]

/-- the proto-only fields of the date/time primitives are not elements -/
theorem hidden_date_fields_rejected (name snake : String) (id : Nat) (m : MsgDesc) (hd : m.dateLike = true)
    (h : hiddenDateField name = true) : fieldStep name snake id m = .err "invalid-field" := by
  have hg : gateOk name m.dateLike = false := by
    unfold gateOk; rw [hd, h]; simp
  simp [fieldStep, hg]

/-- same number, document order, repeated elements flattened: the step over a collection is the
    in-order concatenation of the steps over its items -/
theorem step_flattens_in_order (name snake : String) (ms : List (Nat × MsgDesc)) (outs : List (List Out))
    (h : ms.map (fun p => fieldStep name snake p.1 p.2) = outs.map .ok) :
    fieldStepAll name snake ms = .ok outs.flatten := by
  induction ms generalizing outs with
  | nil => cases outs <;> simp_all [fieldStepAll]
  | cons p ps ih =>
    cases outs with
    | nil => simp at h
    | cons o os =>
      simp only [List.map_cons, List.cons.injEq] at h
      obtain ⟨h1, h2⟩ := h
      obtain ⟨id, m⟩ := p
      simp only [fieldStepAll]
      simp only at h1
      rw [h1, ih os h2]
      simp

/-- an error on any item is an error of the step (never silently skipped) -/
theorem step_error_propagates (name snake : String) (pre : List (Nat × MsgDesc)) (id : Nat) (m : MsgDesc) (post : List (Nat × MsgDesc))
    (hpre : ∀ p ∈ pre, ∃ o, fieldStep name snake p.1 p.2 = .ok o) (e : String) (he : fieldStep name snake id m = .err e) :
    fieldStepAll name snake (pre ++ (id, m) :: post) = .err e := by
  induction pre with
  | nil => simp [fieldStepAll, he]
  | cons p ps ih =>
    obtain ⟨o, ho⟩ := hpre p (by simp)
    have := ih (fun q hq => hpre q (List.mem_cons_of_mem _ hq))
    obtain ⟨pid, pm⟩ := p
    simp only [List.cons_append, fieldStepAll]
    simp only at ho
    rw [ho, this]

/-! ### schema-wide: every element of every R4 message type is reachable under its JSON name -/

def rowNames (m : NMsg) : List (String × String) := m.fields.map fun f => (f.proto, f.json)

/-- field `i` of message `m` is an element (not a oneof member, not a hidden date field) ⇒ its JSON
    name passes the gate and the lookup chain lands on field `i` itself -/
def fieldOk (m : NMsg) (f : NField) (i : Nat) : Bool :=
  f.inOneof || (m.dateLike && hiddenDateField f.json) ||
  (gateOk f.json m.dateLike && resolveSlot (rowNames m) m.isReference m.dateLike f.json f.snake == .field i)

def msgOk (m : NMsg) : Bool := m.wrapper || (m.fields.zipIdx.all fun p => fieldOk m p.1 p.2)

theorem every_element_reachable : chunks.all (fun c => c.all msgOk) = true := by decide +kernel

/-- the table is not trivially satisfied: it has messages that are not wrappers and fields that are elements -/
theorem schema_nontrivial : (chunks.flatten.filter (fun m => !m.wrapper)).length ≥ 1000 ∧
    (chunks.flatten.flatMap (fun m => m.fields.filter (fun f => !f.inOneof))).length ≥ 5000 := by decide +kernel

/-- a described message whose field names are those of a schema row resolves requests as the row does -/
theorem resolves_as_schema (m : MsgDesc) (n : NMsg) (hn : m.names = rowNames n) (hr : m.isReference = n.isReference)
    (hd : m.dateLike = n.dateLike) (name snake : String) :
    resolveSlot m.names m.isReference m.dateLike name snake = resolveSlot (rowNames n) n.isReference n.dateLike name snake := by
  rw [hn, hr, hd]

example : fieldStep "deceased" "deceased" 0
    ⟨"Patient", false, false, none, false, false, [⟨"deceased", "deceased", false, true, [.choice 5 (some 6)]⟩]⟩ = .ok [.node 6] := by decide
example : fieldStep "nosuch" "nosuch" 0 ⟨"Patient", false, false, none, false, false, []⟩ = .err "invalid-field" := by decide
example : fieldStep "lethalDose50" "lethal_dose_50" 0
    ⟨"X", false, false, none, false, false, [⟨"lethal_dose50", "lethalDose50", false, true, [.plain 3]⟩]⟩ = .ok [.node 3] := by decide

/-! ### whole paths: the composition of steps -/

open FP.Lemmas.Path in
/-- A dotted path is the composition of its steps: evaluating `a.b` after `p` is evaluating `p`,
    then `a.b` on what `p` yielded; an error of `p` is the outcome -/
theorem path_is_composition (s t : List (Out → Res (List Out))) (c : List Out) :
    evalPath (s ++ t) c = (evalPath s c).bind (evalPath t) :=
  evalPath_append s t c

open FP.Lemmas.Path in
/-- DOCUMENT ORDER AND FLATTENING FOR WHOLE PATHS: over a collection made of two consecutive parts,
    a path yields what it yields on the first part followed by what it yields on the second -/
theorem path_keeps_document_order (fs : List (Out → Res (List Out))) (a b ra rb : List Out)
    (ha : evalPath fs a = .ok ra) (hb : evalPath fs b = .ok rb) : evalPath fs (a ++ b) = .ok (ra ++ rb) :=
  evalPath_distributes fs a b ra rb ha hb

open FP.Lemmas.Path in
/-- the first failing step decides: a name that is not an element anywhere along the path makes the
    whole path fail with that error, whatever follows -/
theorem path_error_is_final (s t : List (Out → Res (List Out))) (c : List Out) (e : String)
    (h : evalPath s c = .err e) : evalPath (s ++ t) c = .err e := evalPath_error s t c e h

open FP.Lemmas.Path in
/-- the last step of a path is the collection step of FP.Model.Navigate (the one that is run against
    the real `FieldExpression.Evaluate`) applied to the elements the path before it reached -/
theorem path_last_step_is_field_step (t : Tree) (s : List (Out → Res (List Out))) (name snake : String)
    (c : List Out) (ms : List (Nat × MsgDesc)) (h : evalPath s c = .ok (ms.map fun p => Out.node p.1))
    (ht : ∀ p ∈ ms, t p.1 = some p.2) :
    evalPath (s ++ [treeStep t name snake]) c = fieldStepAll name snake ms := by
  rw [evalPath_snoc s _ c _ h]; exact stepAll_nodes t name snake ms ht

open FP.Lemmas.Path in
/-- nothing is fabricated: a path over the empty collection is empty -/
theorem path_on_empty (fs : List (Out → Res (List Out))) : evalPath fs [] = .ok [] := evalPath_nil fs

/-- a two-step path on a small tree: `name.given` over two names, in order, flattened -/
example :
    let given (i : Nat) (vs : List Child) : MsgDesc := ⟨"HumanName", false, false, none, false, false, [⟨"given", "given", true, true, vs⟩]⟩
    let t : Tree := fun
      | 0 => some ⟨"Patient", false, false, none, false, false, [⟨"name", "name", true, true, [.plain 1, .plain 2]⟩]⟩
      | 1 => some (given 1 [.plain 10, .plain 11])
      | 2 => some (given 2 [.plain 20])
      | _ => none
    evalPath [treeStep t "name" "name", treeStep t "given" "given"] [.node 0] = .ok [.node 10, .node 11, .node 20] := by
  decide

end FP.Props.C02
