/-
  C03 — evaluation never mutates its inputs.
  (1) Inventories regenerated from the evaluator packages on every run (FP.Gen.Sites): every
      `append` targets a slice created in the same function, and no mutating protoreflect method
      is called.  (2) A slice-heap model shows why that suffices: appending to a slice whose
      array the caller does not own never changes a caller-owned array — and why the old `&`
      (appending to the operand) did not.
-/
import FP.Model.Heap
import FP.Gen.Sites
namespace FP.Props.C03
open FP.Model FP.Gen.Sites

/-- every `append(x, …)` in the evaluator packages appends to a slice that was created in the
    same function (composite literal, make, nil declaration, or an append to itself) -/
theorem append_targets_fresh : appends.all (fun s => s.prov == "fresh") = true := by decide +kernel

def mutating : List String := ["Set", "Clear", "Mutable", "NewField", "Append", "AppendMutable", "SetUnknown", "ClearOneof"]

/-- NO ELEMENT OF A CALLER'S COLLECTION IS OVERWRITTEN: the only assignments `x[i] = v` in the evaluator packages
    whose `x` is a parameter or the receiver are the three writes into per-Compile / per-call *maps* (the function
    table being built, the variable map of the evaluation being set up) — none stores into a collection that was
    handed in (an "in place" conversion or filter of the input would be such a store) -/
theorem no_store_into_an_argument :
    ((writes.filter (fun w => w.target.endsWith "[…]" && (w.prov.startsWith "param:" || w.prov == "receiver"))).map
      (fun w => (w.fn, w.target))) =
    [("Register", "t[…]"), ("AddExperimentalFuncs", "table[…]"), ("EnvVariable", "cfg.Context.ExternalConstants[…]")] := by
  decide +kernel

/-- … and every other indexed store goes into a local whose every definition creates a new backing store (`make`, a
    literal): none into a slice or map obtained from somewhere else (the result of evaluating an argument, a
    sub-slice of the input) -/
theorem indexed_stores_into_fresh_locals :
    (writes.filter (fun w => w.target.endsWith "[…]" && !(w.prov.startsWith "param:" || w.prov == "receiver"))).all
      (fun w => w.prov == "local-fresh") = true := by
  decide +kernel

/-- the evaluator packages call no mutating protoreflect method (fields are read with Get,
    never Mutable) -/
theorem eval_uses_readonly_proto_api :
    methodCalls.all (fun p => p.2.all (fun m => !mutating.contains m)) = true := by decide +kernel

/-- arrays with id < n are the caller's -/
def callerOwned (n : Nat) (a : Nat) : Prop := a < n

theorem read_set_other (h : Heap) (a b : Nat) (l : List Nat) (hne : a ≠ b) :
    Heap.read (h.set a l) b = Heap.read h b := by
  simp [Heap.read, List.getD, List.getElem?_set, hne]

theorem read_append_old (h : Heap) (l : List Nat) (b : Nat) (hb : b < h.length) :
    Heap.read (h ++ [l]) b = Heap.read h b := by
  simp [Heap.read, List.getD, List.getElem?_append_left hb]

/-- appending to a slice on a non-caller array leaves every caller-owned array unchanged,
    and the resulting slice is again not on a caller array -/
theorem append_fresh_preserves_caller (h : Heap) (s : Slice) (x n : Nat)
    (hn : n ≤ h.length) (hs : ¬ callerOwned n s.arr) :
    (∀ a, callerOwned n a → Heap.read (appendS h s x).1 a = Heap.read h a) ∧ ¬ callerOwned n (appendS h s x).2.arr := by
  unfold appendS callerOwned at *
  by_cases hc : s.len < s.cap
  · simp only [hc, if_true]
    refine ⟨fun a ha => read_set_other h s.arr a _ (by omega), hs⟩
  · simp only [hc, if_false]
    refine ⟨fun a ha => read_append_old h _ a (by omega), by omega⟩

/-- a fresh slice is not on a caller array -/
theorem fresh_not_caller (h : Heap) (n : Nat) (hn : n ≤ h.length) : ¬ callerOwned n (freshS h).2.arr := by
  simp [freshS, callerOwned]; omega

/-- any sequence of appends starting from a fresh slice preserves all caller arrays -/
theorem appends_from_fresh_preserve (h : Heap) (n : Nat) (hn : n ≤ h.length) (xs : List Nat) (s : Slice)
    (hs : ¬ callerOwned n s.arr) :
    ∀ a, callerOwned n a →
      Heap.read (xs.foldl (fun (st : Heap × Slice) x => appendS st.1 st.2 x) (h, s)).1 a = Heap.read h a := by
  induction xs generalizing h s with
  | nil => intro a _; rfl
  | cons x xs ih =>
    intro a ha
    simp only [List.foldl_cons]
    have step := append_fresh_preserves_caller h s x n hn hs
    have hlen : n ≤ (appendS h s x).1.length := by
      unfold appendS; split <;> simp <;> omega
    rw [ih (appendS h s x).1 hlen (appendS h s x).2 step.2 a ha]
    exact step.1 a ha

/-- …whereas appending to a caller-owned slice with spare capacity DOES write the caller's
    array (the defect repaired in `&`: `append(leftResult, "")` on an empty operand with capacity) -/
theorem append_to_caller_slice_writes :
    let h : Heap := [[7, 8, 9]]
    let operand : Slice := ⟨0, 0, 0, 3⟩          -- empty, capacity 3, on the caller's array 0
    Heap.read (appendS h operand 42).1 0 ≠ Heap.read h 0 := by decide

/-- re-slicing (tail/skip/take return sub-slices of the input) writes nothing -/
theorem reslice_reads_only (s : Slice) (a b : Nat) : (reslice s a b).arr = s.arr := rfl

example : appends.length > 20 := by decide +kernel

end FP.Props.C03
