/-
  C07 — empty collections propagate through operators and functions.
  Operators: theorems on the collection-level operator models.  Functions: a statement over the
  whole regenerated function table (base and experimental), decided in the kernel from the
  regenerated guard facts: every implemented non-aggregate function either starts with an
  "empty input → empty" return that precedes any use of input[i], args[i] or Evaluate, or is one
  of seven loop-only functions whose models return empty on empty input.
-/
import FP.Model.Ops
import FP.Model.Empty
import FP.Model.Bool
import FP.Model.Eval
import FP.Gen.ArgEval
namespace FP.Props.C07
open FP FP.Model FP.Gen.FuncTable

/-! ### operators, each operand position -/

theorem arith_empty_left (op : ArithOp) (r : List Val) : arithColl op [] r = .ok [] := by simp [arithColl]
theorem arith_empty_right (op : ArithOp) (l : List Val) : arithColl op l [] = .ok [] := by simp [arithColl]
theorem cmp_empty_left (op : CmpOp) (r : List (Option Val)) : cmpExpr op [] r = .ok [] := by simp [cmpExpr, cmpCore]
theorem cmp_empty_right (op : CmpOp) (l : List (Option Val)) : cmpExpr op l [] = .ok [] := by simp [cmpExpr, cmpCore]
theorem eq_empty_left (n : Bool) (r : List Item) : eqExpr n [] r = [] := by simp [eqExpr]
theorem eq_empty_right (n : Bool) (l : List Item) : eqExpr n l [] = [] := by simp [eqExpr]
theorem neg_empty : negColl [] = .ok [] := rfl
theorem type_op_empty {α : Type} (f : α → List α) : typeOpColl f [] = .ok [] := rfl
theorem index_empty_index {α : Type} (input : List α) : indexColl [] input = .ok [] := rfl
theorem index_empty_input {α : Type} (i : Int) : indexColl [.int i] ([] : List α) = .ok [] := by
  simp [indexColl, indexFn]

/-- `&` alone treats empty as the empty string -/
theorem concat_empty_is_emptystring (s : List UInt8) :
    concatColl [] [.str s] = .ok [.str s] ∧ concatColl [.str s] [] = .ok [.str s] ∧ concatColl [] [] = .ok [.str []] := by
  simp [concatColl]

/-! ### functions: the whole table -/

/-- Every implemented, non-aggregate entry of the base and experimental tables yields empty on
    empty input (by its leading guard, or by being loop-only). -/
theorem table_propagates_empty :
    (baseTable ++ experimentalTable).all (fun e =>
      e.impl == "unimplemented" || isAggregate e.name || onEmpty e == some "ok:[]") = true := by decide +kernel

/-- no entry is left unclassified: a function added to the table without a guard (and not
    loop-only) makes this fail -/
theorem table_fully_classified :
    (baseTable ++ experimentalTable).all (fun e => onEmpty e != some "unknown") = true := by decide +kernel

/-- the loop-only functions' models do return empty on empty input -/
theorem loop_only_models_empty {α β : Type} (crit : α → Res (List BItem)) (proj : α → Res (List β)) (eq : α → α → Bool) :
    whereFn crit [] = .ok [] ∧ selectFn proj [] = .ok [] ∧ distinctFn eq [] = [] ∧ notFn [] = .ok [] := by
  refine ⟨rfl, rfl, rfl, rfl⟩

/-- the aggregates are exactly the documented ones -/
theorem aggregates_documented :
    aggregates.map (·.1) = ["exists", "empty", "count", "all", "allTrue", "anyTrue", "allFalse", "anyFalse", "isDistinct", "iif", "now", "today", "timeOfDay"] := rfl

example : onEmpty ⟨"power", "impl.Power", 1, 1, false⟩ = some "ok:[]" := by decide +kernel
example : onEmpty ⟨"count", "impl.Count", 0, 0, false⟩ = some "ok:[I:0]" := by decide +kernel

/-! ### which implementations look at an argument before they look at the input (regenerated from funcs/impl) -/

/-- the implementations that evaluate an argument on the function's own input although no empty-input guard
    precedes that evaluation — computed from the two regenerated tables (FP.Gen.ArgEval: which argument is
    evaluated on what; FP.Gen.ImplGuards: whether an empty-input guard precedes every use of `args[i]`) -/
def argumentBeforeInputCheck : List String :=
  (((FP.Gen.ArgEval.argEvals.filter (fun a => a.2.2 == "input")).map (·.1)).eraseDups).filter
    (fun f => !guardOf ("impl." ++ f))

/-- AN EMPTY INPUT IS EMPTY WHATEVER THE ARGUMENTS ARE — except where recorded: on the current source exactly two
    implementations evaluate an argument before they have looked at the input: `Iif` (a documented aggregate: its
    criterion is its first argument) and `Extension` (the recorded finding C07-extension-empty-input, pinned by
    TestExtension_InvalidInput_RaisesError).  A function that newly evaluates an argument before its empty-input guard makes this
    fail before anything is evaluated. -/
theorem argument_before_input_check_as_recorded :
    ∀ f ∈ argumentBeforeInputCheck, f = "Iif" ∨ f = "Extension" := by decide +kernel

/-- non-vacuity: the list is computed, not empty by construction — `Iif` is found by it -/
example : "Iif" ∈ argumentBeforeInputCheck := by decide +kernel

/-- the criteria functions evaluate their argument on the one-item collection of each input item, so on an empty
    input they never evaluate it at all -/
theorem per_item_arguments_never_evaluated_on_empty :
    ((FP.Gen.ArgEval.argEvals.filter (fun a => a.2.2 != "input")).map (fun a => (a.1, a.2.2))) =
      [("All", "system.Collection{element}"), ("Children", "system.Collection{base}"),
       ("Select", "system.Collection{item}"), ("Where", "system.Collection{item}")] := by decide +kernel

/-! ### whole expressions (the assembled evaluator, FP.Model.Eval): an empty focus stays empty
    along every path built from strict steps, whatever the argument expressions are -/

section Expr
open FP.Model.Eval

def strict0 : List String := ["first", "last", "tail", "distinct", "not", "length", "toChars", "abs", "ceiling", "floor", "truncate",
  "toString", "toInteger", "toDecimal", "toBoolean", "convertsToString", "convertsToInteger", "convertsToDecimal", "convertsToBoolean"]
def strict1 : List String := ["where", "select", "skip", "take", "intersect", "exclude", "startsWith", "endsWith", "contains", "indexOf", "substring"]
def strict2 : List String := ["substring", "replace"]

/-- one step of a path that must hand on an empty focus -/
inductive StrictStep : E → Prop where
  | this : StrictStep .this
  | field (n) : StrictStep (.field n)
  | typeRoot (n) : StrictStep (.typeRoot n)
  | fn0 (n) : n ∈ strict0 → StrictStep (.fn n .argNil)
  | fn1 (n a) : n ∈ strict1 → StrictStep (.fn n (.argCons a .argNil))
  | fn2 (n a b) : n ∈ strict2 → StrictStep (.fn n (.argCons a (.argCons b .argNil)))
  | isT (e t) : StrictStep e → StrictStep (.isT e t)
  | asT (e t) : StrictStep e → StrictStep (.asT e t)
  | neg (e) : StrictStep e → StrictStep (.neg e)
  | seq (a b) : StrictStep a → StrictStep b → StrictStep (.seq a b)

/-- EMPTY PROPAGATES THROUGH WHOLE PATHS: every expression built from strict steps — navigation,
    subsetting, filtering, projection, set, string and math functions with arbitrary argument
    expressions, polarity — evaluates to empty on an empty input; no argument is even looked at -/
theorem strict_path_on_empty (env : Env) (e : E) (h : StrictStep e) : eval env e [] = .ok [] := by
  induction h with
  | this => rfl
  | field n => simp [eval]
  | typeRoot n => rfl
  | fn0 n hn =>
    simp only [strict0, List.mem_cons, List.not_mem_nil, or_false] at hn
    rcases hn with rfl | rfl | rfl | rfl | rfl | rfl | rfl | rfl | rfl | rfl | rfl | rfl | rfl | rfl | rfl | rfl | rfl | rfl | rfl <;>
      simp [eval, isClockFn, apply0, firstFn, lastFn, tailFn, distinctFn, distinctAux, notFn, toSingletonBoolean, mapRes, bools,
        onString, mathOn, convOn, convertsOn, Res.bind] <;> rfl
  | fn1 n a hn =>
    simp only [strict1, List.mem_cons, List.not_mem_nil, or_false] at hn
    rcases hn with rfl | rfl | rfl | rfl | rfl | rfl | rfl | rfl | rfl | rfl | rfl <;>
      simp [eval, apply1, whereFn, selectFn, onString]
  | fn2 n a b hn =>
    simp only [strict2, List.mem_cons, List.not_mem_nil, or_false] at hn
    rcases hn with rfl | rfl <;> simp [eval, apply2, onString]
  | isT e t _ ih => simp [eval, ih, Res.bind, typeOpColl]
  | asT e t _ ih => simp [eval, ih, Res.bind, typeOpColl]
  | neg e _ ih => simp [eval, ih, Res.bind, negColl]
  | seq a b _ _ iha ihb => simp [eval, iha, ihb, Res.bind]

theorem arithEv_empty_left (op : ArithOp) (rv : List Val) : arithEv op [] rv = .ok [] := by
  unfold arithEv; split <;> simp_all [arithColl]

/-- the same on the right: also a Date / DateTime / Time on the left is not shifted by nothing -/
theorem arithEv_empty_right (op : ArithOp) (lv : List Val) : arithEv op lv [] = .ok [] := by
  unfold arithEv; split <;> simp_all [arithColl]

/-- operators on whole expressions: an operand expression that evaluates to empty makes the result
    empty, whatever the other operand evaluates to (it must only evaluate) -/
theorem expr_arith_empty (env : Env) (op : ArithOp) (l r : E) (input rv : List Val)
    (hl : eval env l input = .ok []) (hr : eval env r input = .ok rv) :
    eval env (.arith op l r) input = .ok [] ∧ eval env (.cmp .lt l r) input = .ok [] ∧
    eval env (.eq false l r) input = .ok [] := by
  simp [eval, hl, hr, Res.bind, arithEv_empty_left, cmpExpr, cmpCore, eqExpr, mapRes, bools]

/-- non-vacuity: a five-step path with arbitrary arguments is strict -/
example (p q : E) : StrictStep (.seq (.seq (.seq .this (.fn "where" (.argCons p .argNil))) (.fn "first" .argNil))
    (.seq (.fn "substring" (.argCons q (.argCons p .argNil))) (.neg (.fn "length" .argNil)))) := by
  repeat (first | constructor | simp [strict0, strict1, strict2])

/-- the documented exceptions `now()` / `today()` / `timeOfDay()` are aggregates of nothing: on an empty input
    they yield what they yield on any input (so they are rightly absent from the strict steps above) -/
theorem clock_functions_ignore_empty_input (env : Env) (n : String) (h : isClockFn n = true) (input : List Val) :
    eval env (.fn n .argNil) [] = eval env (.fn n .argNil) input := by
  have hn : n ≠ "unimplemented!" := by
    intro hc; subst hc; simp [isClockFn] at h
  simp [eval, hn, h]

/-- `upper()`, `lower()`, `round()`, `round(p)` propagate empty: no argument is looked at -/
theorem new_strict_functions_on_empty (env : Env) (a : E) :
    eval env (.fn "upper" .argNil) [] = .ok [] ∧ eval env (.fn "lower" .argNil) [] = .ok [] ∧
    eval env (.fn "round" .argNil) [] = .ok [] ∧ eval env (.fn "round" (.argCons a .argNil)) [] = .ok [] := by
  simp [eval, isClockFn, apply0, apply1, caseOn]

end Expr

end FP.Props.C07
