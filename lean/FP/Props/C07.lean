/-
  C07 — empty collections propagate through operators and functions.
  Operators: theorems on the collection-level operator models.  Functions: a statement over the
  whole regenerated function table (base and experimental), decided in the kernel from the
  regenerated guard facts: every implemented non-aggregate function either starts with an
  "empty input → empty" return that precedes any use of input[i], args[i] or Evaluate, or is one
  of seven loop-only functions whose models return empty on empty input.
-/
import FP.Model.Ops
import FP.Model.Empty
import FP.Model.Bool
namespace FP.Props.C07
open FP FP.Model FP.Gen.FuncTable

/-! ### operators, each operand position -/

theorem arith_empty_left (op : ArithOp) (r : List Val) : arithColl op [] r = .ok [] := by simp [arithColl]
theorem arith_empty_right (op : ArithOp) (l : List Val) : arithColl op l [] = .ok [] := by simp [arithColl]
theorem cmp_empty_left (op : CmpOp) (r : List (Option Val)) : cmpExpr op [] r = .ok [] := by simp [cmpExpr, cmpCore]
theorem cmp_empty_right (op : CmpOp) (l : List (Option Val)) : cmpExpr op l [] = .ok [] := by simp [cmpExpr, cmpCore]
theorem eq_empty_left (n : Bool) (r : List Item) : eqExpr n [] r = [] := by simp [eqExpr]
theorem eq_empty_right (n : Bool) (l : List Item) : eqExpr n l [] = [] := by simp [eqExpr]
theorem neg_empty : negColl [] = .ok [] := rfl
theorem type_op_empty {α : Type} (f : α → List α) : typeOpColl f [] = .ok [] := rfl
theorem index_empty_index {α : Type} (input : List α) : indexColl [] input = .ok [] := rfl
theorem index_empty_input {α : Type} (i : Int) : indexColl [.int i] ([] : List α) = .ok [] := by
  simp [indexColl, indexFn]

/-- `&` alone treats empty as the empty string -/
theorem concat_empty_is_emptystring (s : List UInt8) :
    concatColl [] [.str s] = .ok [.str s] ∧ concatColl [.str s] [] = .ok [.str s] ∧ concatColl [] [] = .ok [.str []] := by
  simp [concatColl]

/-! ### functions: the whole table -/

/-- Every implemented, non-aggregate entry of the base and experimental tables yields empty on
    empty input (by its leading guard, or by being loop-only). -/
theorem table_propagates_empty :
    (baseTable ++ experimentalTable).all (fun e =>
      e.impl == "unimplemented" || isAggregate e.name || onEmpty e == some "ok:[]") = true := by decide +kernel

/-- no entry is left unclassified: a function added to the table without a guard (and not
    loop-only) makes this fail -/
theorem table_fully_classified :
    (baseTable ++ experimentalTable).all (fun e => onEmpty e != some "unknown") = true := by decide +kernel

/-- the loop-only functions' models do return empty on empty input -/
theorem loop_only_models_empty {α β : Type} (crit : α → Res (List BItem)) (proj : α → Res (List β)) (eq : α → α → Bool) :
    whereFn crit [] = .ok [] ∧ selectFn proj [] = .ok [] ∧ distinctFn eq [] = [] ∧ notFn [] = .ok [] := by
  refine ⟨rfl, rfl, rfl, rfl⟩

/-- the aggregates are exactly the documented ones -/
theorem aggregates_documented :
    aggregates.map (·.1) = ["exists", "empty", "count", "all", "allTrue", "anyTrue", "allFalse", "anyFalse", "isDistinct", "iif", "now", "today", "timeOfDay"] := rfl

example : onEmpty ⟨"power", "impl.Power", 1, 1, false⟩ = some "ok:[]" := by decide +kernel
example : onEmpty ⟨"count", "impl.Count", 0, 0, false⟩ = some "ok:[I:0]" := by decide +kernel

end FP.Props.C07
