/-
  C17 — environment variables and custom functions behave as declared.
  Theorems hold for option lists of ANY length and order.
-/
import FP.Model.Options
import FP.Model.Eval
namespace FP.Props.C17
open FP FP.Model

/-! ### all options are applied; any failure prevents evaluation -/

theorem applyAll_errs_append (m : EnvMap) (o : EnvOpt) (os : List EnvOpt) :
    (applyAll m (o :: os)).2 = (match (applyEnv m o).2 with | some e => [e] | none => []) ++ (applyAll (applyEnv m o).1 os).2 := rfl

/-- If any option fails, evaluation is skipped and the error is returned — wherever the failing
    option stands in the list and whatever the other options are. -/
theorem failing_option_prevents_evaluation {α : Type} (input : VShape) (pre post : List EnvOpt) (o : EnvOpt)
    (run : EnvMap → α) (hbad : validShape o.value = false) :
    ∃ errs, evaluateWith input (pre ++ o :: post) run = .error errs ∧ OptErr.unsupportedType ∈ errs := by
  have key : ∀ (m : EnvMap) (pre : List EnvOpt), OptErr.unsupportedType ∈ (applyAll m (pre ++ o :: post)).2 := by
    intro m pre
    induction pre generalizing m with
    | nil => simp [applyAll, applyEnv, hbad]
    | cons p ps ih =>
      simp only [List.cons_append, applyAll]
      exact List.mem_append_right _ (ih _)
  unfold evaluateWith
  have hne := key (initMap input) pre
  cases h : (applyAll (initMap input) (pre ++ o :: post)).2 with
  | nil => rw [h] at hne; simp at hne
  | cons e es => exact ⟨e :: es, by simp [h], by rw [← h]; exact hne⟩

/-- a value that is not a System value, element/resource or collection of those — at ANY nesting
    depth — is rejected -/
theorem unsupported_nested_found (pre post : List VShape) (v : VShape) (h : validShape v = false) :
    validShape (.coll (pre ++ v :: post)) = false := by
  unfold validShape
  induction pre with
  | nil =>
    cases v with
    | sys _ => simp [validShape] at h
    | elem _ => simp [validShape] at h
    | coll _ => rfl
    | bad => rfl
  | cons p ps ih => cases p <;> simp [validShape.validItems] <;> exact ih

/-- collections do not nest: a collection inside a collection is unsupported whatever it holds -/
theorem nested_collection_unsupported (pre post inner : List VShape) :
    validShape (.coll (pre ++ .coll inner :: post)) = false := by
  unfold validShape
  induction pre with
  | nil => rfl
  | cons p ps ih => cases p <;> simp [validShape.validItems] <;> exact ih

theorem unsupported_deeply_nested (v : VShape) (h : validShape v = false) (n : Nat) :
    validShape (Nat.rec v (fun _ acc => .coll [.sys 1, acc]) n) = false := by
  cases n with
  | zero => exact h
  | succ n =>
    cases n with
    | zero => exact unsupported_nested_found [.sys 1] [] v h
    | succ m => rfl

/-- a name supplied twice fails with ErrExistingConstant (second occurrence), whatever lies between -/
theorem duplicate_name_existing (m : EnvMap) (a b : EnvOpt) (mid post : List EnvOpt)
    (hn : a.name = b.name) (ha : validShape a.value = true) (hb : validShape b.value = true) :
    OptErr.existingConstant ∈ (applyAll m (a :: mid ++ b :: post)).2 := by
  -- after `a`, the map has the name; it is never removed
  have grow : ∀ (m : EnvMap) (o : EnvOpt) (n : String), m.has n = true → (applyEnv m o).1.has n = true := by
    intro m o n h
    unfold applyEnv
    split
    · exact h
    · split
      · exact h
      · simp [EnvMap.has] at h ⊢; exact Or.inl h
  have keep : ∀ (mid : List EnvOpt) (m : EnvMap), m.has b.name = true →
      OptErr.existingConstant ∈ (applyAll m (mid ++ b :: post)).2 := by
    intro mid
    induction mid with
    | nil => intro m h; simp [applyAll, applyEnv, hb, h]
    | cons p ps ih =>
      intro m h
      simp only [List.cons_append, applyAll]
      exact List.mem_append_right _ (ih _ (grow m p b.name h))
  simp only [List.cons_append, applyAll]
  apply List.mem_append_right
  apply keep
  unfold applyEnv
  simp only [ha, Bool.not_true, Bool.false_eq_true, if_false]
  split
  · rw [← hn]; assumption
  · simp [EnvMap.has, hn]

/-- `context` and `ucum` are predefined: supplying them fails with ErrExistingConstant -/
theorem predefined_name_existing (input : VShape) (o : EnvOpt) (h : o.name = "context" ∨ o.name = "ucum")
    (hv : validShape o.value = true) :
    (applyEnv (initMap input) o).2 = some .existingConstant := by
  rcases h with h | h <;> simp [applyEnv, hv, initMap, EnvMap.has, h]

/-- on success every supplied variable evaluates to exactly the supplied value, `%context` is
    the input and `%ucum` is untouched -/
theorem applyAll_preserves (m : EnvMap) (os : List EnvOpt) (n : String) (v : VShape) (h : m.get n = some v) :
    (applyAll m os).1.get n = some v := by
  induction os generalizing m with
  | nil => exact h
  | cons o os ih =>
    simp only [applyAll]
    apply ih
    unfold applyEnv
    split
    · exact h
    · split
      · exact h
      · simp only [EnvMap.get] at h ⊢
        rw [List.find?_append]
        cases hf : List.find? (fun p => p.1 == n) m with
        | none => simp [hf] at h
        | some p => simpa [hf] using h

theorem supplied_value_is_read_back (m : EnvMap) (o : EnvOpt) (os : List EnvOpt)
    (hv : validShape o.value = true) (hfresh : m.has o.name = false) :
    (applyAll m (o :: os)).1.get o.name = some o.value := by
  simp only [applyAll]
  apply applyAll_preserves
  simp only [applyEnv, hv, hfresh, Bool.not_true, Bool.false_eq_true, if_false, EnvMap.get]
  rw [List.find?_append]
  have : List.find? (fun p => p.1 == o.name) m = none := by
    simp only [EnvMap.has, List.any_eq_false] at hfresh
    exact List.find?_eq_none.mpr (fun x hx => by simpa using hfresh x hx)
  simp [this]

theorem context_is_input (input : VShape) (os : List EnvOpt) :
    (applyAll (initMap input) os).1.get "context" = some input :=
  applyAll_preserves _ os "context" input (by simp [initMap, EnvMap.get])

/-- a collection is spliced in, not nested; an unknown variable is an evaluation error -/
theorem collection_spliced (m : EnvMap) (n : String) (items : List VShape) (h : m.get n = some (.coll items)) :
    lookupVar m n = .ok items := by simp [lookupVar, h]
theorem unknown_variable_error (m : EnvMap) (n : String) (h : m.get n = none) :
    lookupVar m n = .error "constant-not-found" := by simp [lookupVar, h]

/-! ### custom functions -/

theorem good_signature (ps : List GoTy) :
    validateSig ⟨true, .collection :: ps, [.collection, .error]⟩ = [] := by simp [validateSig]

theorem bad_signature_rejected (tableNames : List String) (name : String) (s : Sig)
    (hfresh : tableNames.contains name = false)
    (h : s.isFunc = false ∨ s.ins = [] ∨ s.ins.head? ≠ some .collection ∨ s.outs ≠ [.collection, .error]) :
    ∃ errs, register tableNames name s = .badSig errs ∧ errs ≠ [] := by
  have hv : validateSig s ≠ [] := by
    unfold validateSig
    rcases h with h | h | h | h
    · simp [h]
    · by_cases hf : s.isFunc <;> simp [hf, h]
    · by_cases hf : s.isFunc
      · simp only [hf, Bool.not_true, Bool.false_eq_true, if_false]
        cases hi : s.ins with
        | nil => simp
        | cons t ts =>
          have : t ≠ .collection := by intro e; apply h; simp [hi, e]
          simp [this]
      · simp [hf]
    · by_cases hf : s.isFunc
      · simp only [hf, Bool.not_true, Bool.false_eq_true, if_false]
        have : (s.outs == [GoTy.collection, GoTy.error]) = false := by simpa using h
        simp [this]
      · simp [hf]
  unfold register
  simp only [hfresh, Bool.false_eq_true, if_false]
  cases hvs : validateSig s with
  | nil => exact absurd hvs hv
  | cons e es => exact ⟨e :: es, rfl, by simp⟩

theorem existing_name_rejected (tableNames : List String) (name : String) (s : Sig) (h : name ∈ tableNames) :
    register tableNames name s = .exists := by
  have : tableNames.contains name = true := List.contains_iff_mem.mpr h
  simp only [register, this, if_true]

/-- a registered fixed-arity function is accepted only with exactly its number of arguments -/
theorem registered_arity (tableNames : List String) (name : String) (ps : List GoTy)
    (hfresh : tableNames.contains name = false) :
    register tableNames name ⟨true, .collection :: ps, [.collection, .error]⟩ = .registered ps.length := by
  simp only [register, hfresh, Bool.false_eq_true, if_false]
  simp [validateSig, sigArity]

/-- arguments reach the function as their single items; the result is passed through unchanged -/
theorem custom_call_passes_through (ps : List GoTy) (vals : List Nat) (h : vals.length = ps.length)
    (body : List Nat → Except String (List Nat)) :
    callCustom ⟨true, .collection :: ps, [.collection, .error]⟩
      ((ps.zip vals).map fun p => some [(p.1, p.2)]) body = body vals := by
  unfold callCustom
  have hl : ((ps.zip vals).map fun p => some [(p.1, p.2)]).length = sigArity ⟨true, .collection :: ps, [.collection, .error]⟩ := by
    simp [sigArity, h]
  simp only [hl, bne_self_eq_false, Bool.false_eq_true, if_false, List.drop_one, List.tail_cons]
  have gen : ∀ (ps : List GoTy) (vals acc : List Nat), vals.length = ps.length →
      callCustom.go body ps ((ps.zip vals).map fun p => some [(p.1, p.2)]) acc = body (acc.reverse ++ vals) := by
    intro ps
    induction ps with
    | nil => intro vals acc hv; cases vals <;> simp_all [callCustom.go]
    | cons t ts ih =>
      intro vals acc hv
      cases vals with
      | nil => simp at hv
      | cons v vs =>
        simp at hv
        simp only [List.zip_cons_cons, List.map_cons, callCustom.go, beq_self_eq_true, Bool.true_or, if_true]
        rw [ih vs (v :: acc) hv]
        simp
  simpa using gen ps vals [] h

/-- an argument that is not a single item, or of the wrong type, is an error — the function is not called -/
theorem custom_call_checks_args (t : GoTy) (ht : t ≠ .other "any") (body : List Nat → Except String (List Nat)) :
    callCustom ⟨true, [.collection, t], [.collection, .error]⟩ [some []] body = .error "invalid-return-type" ∧
    callCustom ⟨true, [.collection, t], [.collection, .error]⟩ [some [(t, 1), (t, 2)]] body = .error "invalid-return-type" ∧
    (∀ u, u ≠ t → callCustom ⟨true, [.collection, t], [.collection, .error]⟩ [some [(u, 1)]] body = .error "invalid-return-type") := by
  refine ⟨by simp [callCustom, callCustom.go, sigArity], by simp [callCustom, callCustom.go, sigArity], ?_⟩
  intro u hu
  have h1 : (u == t) = false := by simpa using hu
  have h2 : (t == GoTy.other "any") = false := by simpa using ht
  simp [callCustom, callCustom.go, sigArity, h1, h2]

example : (applyAll (initMap (.coll [])) [⟨"a", .sys 1⟩, ⟨"a", .sys 2⟩]).2 = [.existingConstant] := by decide
example : (applyAll (initMap (.coll [])) [⟨"x", .coll [.sys 1, .coll [.bad]]⟩, ⟨"ucum", .sys 2⟩]).2 = [.unsupportedType, .existingConstant] := by decide

/-! ### environment variables in the assembled evaluator (FP.Model.Eval) -/

section Expr
open FP.Model.Eval

/-- a supplied variable evaluates to exactly the supplied collection (spliced in, not nested), whatever
    the input is; an unknown one is an evaluation error -/
theorem expr_variable (env : Env) (n : String) (input : List Val) :
    (∀ v, env.find? (fun p => p.1 == n) = some (n, v) → eval env (.ext n) input = .ok v) ∧
    (env.find? (fun p => p.1 == n) = none → eval env (.ext n) input = .err "constant-not-found") := by
  refine ⟨fun v h => ?_, fun h => ?_⟩ <;> simp [eval, h]

/-- `%context` is the input collection and `%ucum` the UCUM URL, for every program -/
theorem expr_predefined (env : Env) (input : List Val) :
    finish env input (.ok (.ext "context", false)) = .result input ∧
    finish env input (.ok (.ext "ucum", false)) = .result [.str (utf8 "http://unitsofmeasure.org".toList)] := by
  simp [finish, eval]

/-- an unknown variable fails wherever it stands: an error in an operand is the error of the operation -/
theorem expr_unknown_variable_propagates (env : Env) (n : String) (op : ArithOp) (r : E) (input : List Val)
    (h : env.find? (fun p => p.1 == n) = none) :
    eval env (.arith op (.ext n) r) input = .err "constant-not-found" ∧
    eval env (.seq (.ext n) r) input = .err "constant-not-found" ∧
    eval env (.eq false (.ext n) r) input = .err "constant-not-found" := by
  simp [eval, h, Res.bind]

end Expr

end FP.Props.C17
