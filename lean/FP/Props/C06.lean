/-
  C06 — Boolean operators follow FHIRPath three-valued logic for every operand form.
  Property theorems only.  `FP.Gen.Bool3` is regenerated from booleans.go on every run.
-/
import FP.Model.Bool
import FP.Ref.Bool3
import FP.Model.Eval
namespace FP.Props.C06
open FP FP.Go FP.Model FP.Ref FP.Gen.Bool3

/-- what a FHIRPath operand *means* as a truth value: empty = unknown, a Boolean = itself,
    any other single item = true, more than one item = not a truth value. -/
def meaning (c : List BItem) : Option Tri :=
  meaningOf (c.map fun | .bool b => some b | .other => none)

def ref (op : BoolOp) : Tri → Tri → Tri :=
  match op with
  | .and => and3 | .or => or3 | .xor => xor3 | .implies => implies3

/-- The four regenerated tables equal the specification tables on every pair of
    three-valued operands. -/
theorem tables_match_spec (op : BoolOp) (a b : Tri) :
    table op a.toList b.toList = some (ref op a b).toList := by
  cases op <;> rcases a with _ | _ | _ <;> rcases b with _ | _ | _ <;> rfl

/-- The regenerated tables never trap (index out of range), for lists of *any* length. -/
theorem tables_never_panic (op : BoolOp) (l r : List Bool) : (table op l r).isSome := by
  have len2_ne_one : ∀ n : Nat, ((n : Int) + 1 + 1 = 1) = False := by intro n; simp; omega
  have len2_pos : ∀ n : Nat, (0 < (n : Int) + 1 + 1) = True := by intro n; simp; omega
  cases op <;> rcases l with _ | ⟨_ | _, _ | ⟨a', l⟩⟩ <;> rcases r with _ | ⟨_ | _, _ | ⟨b', r⟩⟩ <;>
    simp [table, evaluateAnd, evaluateOr, evaluateXor, evaluateImplies, gand, gor, len2_ne_one, len2_pos]

/-- Singleton rule: empty is unknown, a Boolean is itself, a single non-Boolean is true,
    more than one item is an error — never silently the first item. -/
theorem singleton_rule (c : List BItem) :
    toSingletonBoolean c = (match meaning c with
      | some t => .ok t.toList
      | none => .err "not-singleton") := by
  rcases c with _ | ⟨x, _ | ⟨y, c⟩⟩ <;> try cases x <;> rfl
  rfl

/-- The same rule governs `ToBool` (criteria of where/exists/all/iif, EvaluateAsBool),
    except that unknown reads as false there. -/
theorem toBool_agrees (c : List BItem) :
    toBool c = (toSingletonBoolean c).bind (fun l => .ok (l.headD false)) := by
  rcases c with _ | ⟨x, _ | ⟨y, c⟩⟩ <;> try cases x <;> rfl
  rfl

/-- End to end: the operator applied to two operand collections returns exactly the
    specification's table value of their meanings, and is an error as soon as one operand has
    more than one item. -/
theorem boolExpr_spec (op : BoolOp) (l r : List BItem) :
    boolExpr op l r = (match meaning l, meaning r with
      | some a, some b => .ok (ref op a b).toList
      | _, _ => .err "not-singleton") := by
  rcases l with _ | ⟨⟨_ | _⟩ | _, _ | ⟨y, l⟩⟩ <;> rcases r with _ | ⟨⟨_ | _⟩ | _, _ | ⟨y', r⟩⟩ <;>
    cases op <;> rfl

theorem boolExpr_never_panics (op : BoolOp) (l r : List BItem) : boolExpr op l r ≠ .panic := by
  rw [boolExpr_spec]; split <;> simp

theorem and_comm (a b : Tri) : table .and a.toList b.toList = table .and b.toList a.toList := by
  rcases a with _ | _ | _ <;> rcases b with _ | _ | _ <;> rfl
theorem or_comm (a b : Tri) : table .or a.toList b.toList = table .or b.toList a.toList := by
  rcases a with _ | _ | _ <;> rcases b with _ | _ | _ <;> rfl
theorem xor_comm (a b : Tri) : table .xor a.toList b.toList = table .xor b.toList a.toList := by
  rcases a with _ | _ | _ <;> rcases b with _ | _ | _ <;> rfl

/-- commutativity at the level of whole operand collections (errors included) -/
theorem boolExpr_comm (op : BoolOp) (h : op ≠ .implies) (l r : List BItem) :
    boolExpr op l r = boolExpr op r l := by
  rw [boolExpr_spec, boolExpr_spec]
  cases hl : meaning l <;> cases hr : meaning r <;> simp
  rename_i a b
  cases op <;> first | contradiction | (rcases a with _ | _ | _ <;> rcases b with _ | _ | _ <;> rfl)

/-- De Morgan: `(a and b).not() = a.not() or b.not()` and dually. -/
theorem de_morgan_and (a b : Tri) :
    (table .and a.toList b.toList).map (·.map (!·)) = table .or (not3 a).toList (not3 b).toList := by
  rcases a with _ | _ | _ <;> rcases b with _ | _ | _ <;> rfl
theorem de_morgan_or (a b : Tri) :
    (table .or a.toList b.toList).map (·.map (!·)) = table .and (not3 a).toList (not3 b).toList := by
  rcases a with _ | _ | _ <;> rcases b with _ | _ | _ <;> rfl

/-- `a implies b` equals `a.not() or b`. -/
theorem implies_eq_not_or (a b : Tri) :
    table .implies a.toList b.toList = table .or (not3 a).toList b.toList := by
  rcases a with _ | _ | _ <;> rcases b with _ | _ | _ <;> rfl

/-- `not()` on an operand collection is `not3` of its meaning. -/
theorem notFn_spec (c : List BItem) :
    notFn c = (match meaning c with
      | some t => .ok (not3 t).toList
      | none => .err "not-singleton") := by
  rcases c with _ | ⟨x, _ | ⟨y, c⟩⟩ <;> try cases x <;> rfl
  rfl

-- non-vacuity: concrete operand forms meeting each branch
example : boolExpr .and [.other] [] = .ok [] := rfl
example : boolExpr .or [.bool false, .bool true] [.bool true] = .err "not-singleton" := rfl
example : boolExpr .implies [] [.other] = .ok [true] := rfl

/-! ### the singleton rule in criteria, on whole expressions (the assembled evaluator, FP.Model.Eval) -/

section Expr
open FP.Model.Eval

/-- a criterion that evaluates to MORE THAN ONE item on some input item is an error in `where`, `exists`,
    `all` and `iif` alike — never silently its first item -/
theorem expr_criterion_multi_item_is_error (env : Env) (p t : E) (x : Val) (rest : List Val) (a b : Val) (r : List Val)
    (hx : eval env p [x] = .ok (a :: b :: r)) :
    eval env (.fn "where" (.argCons p .argNil)) (x :: rest) = .err "not-singleton" ∧
    eval env (.fn "exists" (.argCons p .argNil)) (x :: rest) = .err "not-singleton" ∧
    eval env (.fn "all" (.argCons p .argNil)) (x :: rest) = .err "not-singleton" ∧
    eval env (.fn "iif" (.argCons p (.argCons t .argNil))) [x] = .err "not-singleton" := by
  simp [eval, apply1, apply2, whereFn, existsFn, allFn, crit, hx, mapRes, toSingletonBoolean, Model.toBool, Res.bind]

/-- a criterion that evaluates to a single item that is no Boolean counts as true; to nothing, as not true -/
theorem expr_criterion_single_item (env : Env) (p : E) (x v : Val) (hv : ∀ b, v ≠ .bool b) :
    (eval env p [x] = .ok [v] →
      eval env (.fn "where" (.argCons p .argNil)) [x] = .ok [x] ∧ eval env (.fn "all" (.argCons p .argNil)) [x] = .ok [.bool true]) ∧
    (eval env p [x] = .ok [] →
      eval env (.fn "where" (.argCons p .argNil)) [x] = .ok [] ∧ eval env (.fn "all" (.argCons p .argNil)) [x] = .ok [.bool false]) := by
  have hb : toB v = .other := by
    cases v <;> simp [toB] <;> exact absurd rfl (hv _)
  refine ⟨fun h => ?_, fun h => ?_⟩
  · simp [eval, apply1, whereFn, allFn, crit, h, mapRes, hb, toSingletonBoolean, Model.toBool]
  · simp [eval, apply1, whereFn, allFn, crit, h, mapRes, Model.toBool]

/-- the connectives on whole expressions are the tables applied to the operands' singleton readings -/
theorem expr_connective (env : Env) (op : BoolOp) (l r : E) (input lv rv : List Val)
    (hl : eval env l input = .ok lv) (hr : eval env r input = .ok rv) :
    eval env (.bool op l r) input = mapRes bools (boolExpr op (lv.map toB) (rv.map toB)) := by
  simp [eval, hl, hr, Res.bind]

end Expr

end FP.Props.C06
