/-
  C11 — parsing respects FHIRPath precedence, associativity and token boundaries.
  The level table is regenerated from fhirpath.g4 on every run; the round-trip theorem holds for
  every table with the (decidable, checked) property `tableOK`, and for every expression tree over
  all its operators.
-/
import FP.Model.Syntax
import FP.Model.Printer
import FP.Lemmas.Syntax
import FP.Lemmas.SyntaxFull
import FP.Lemmas.Lexer
import FP.Model.Eval
import FP.Gen.Visitor
import FP.Gen.EvalShape
namespace FP.Props.C11
open FP FP.Model.Syntax FP.Gen.Grammar FP.Lemmas.Syntax FP.Lemmas.Lexer

/-- the precedence levels of the grammar file, loosest first, are the thirteen levels of the
    FHIRPath specification in the specification's order -/
theorem levels_as_specified : levels =
    [(["implies"], false), (["or", "xor"], false), (["and"], false), (["in", "contains"], false),
     (["=", "~", "!=", "!~"], false), (["<=", "<", ">", ">="], false), (["|"], false), (["is", "as"], true),
     (["+", "-", "&"], false), (["*", "/", "div", "mod"], false)] := by decide +kernel

/-- the alternatives that are not binary come first, in the order term, invocation, indexer,
    polarity: postfix binds tighter than polarity, polarity tighter than every binary operator —
    the reading the stratified model parser implements -/
theorem tight_alternatives_first :
    (alternatives.take 4).map (·.2.1) = ["term", "postfix-invocation", "postfix-index", "prefix"] ∧
    (alternatives.drop 4).all (fun a => a.2.1 == "binary" || a.2.1 == "type") = true := by decide +kernel

/-- no operator belongs to two levels, and none is a bracket, separator or calendar keyword -/
theorem table_ok : tableOK = true := by decide +kernel

/-- PRECEDENCE AND ASSOCIATIVITY: every expression tree, rendered with exactly the parentheses its
    levels and left associativity require, parses back to itself — and the parse consumes the
    whole token list -/
theorem minimal_rendering_roundtrip (t : Ex) (h : Core t) : parseProg (printAt 0 t) = some t := by
  have g := good_of_core table_ok t h
  have hd := depth_le_length t h 0
  have := g.rt 0 (2 * (printAt 0 t).length + 1) [] (Nat.zero_le _) (by unfold fuelOK; split <;> omega) (Or.inl rfl)
  unfold parseProg
  rw [show 2 * (printAt 0 t).length + 2 = (2 * (printAt 0 t).length + 1) + 1 from rfl, exprP_succ]
  rw [List.append_nil] at this
  rw [this]

/-- the same in any context: a sub-expression rendered for a context of level c, followed by
    something that cannot extend it, is parsed as that sub-expression and nothing more -/
theorem rendering_in_context (t : Ex) (h : Core t) (c f : Nat) (rest : List Tok) (hc : c ≤ nLevels + 2)
    (hf : 2 * depth t ≤ f) (hs : Stop c rest) : Pc f c (printAt c t ++ rest) = some (t, rest) :=
  (good_of_core table_ok t h).rt c f rest hc (by unfold fuelOK; split <;> omega) hs

/-- left associativity and precedence, concretely: a - b - c is (a - b) - c; the other association
    needs parentheses, and so does a sum under a product -/
example : printAt 0 (.bin "-" (.bin "-" (.lit (.num "1")) (.lit (.num "2"))) (.lit (.num "3"))) =
    [.num "1", .kw "-", .num "2", .kw "-", .num "3"] := by
  have h1 : levelIdx "-" false = 8 := by decide +kernel
  simp [printAt, paren, h1]
example : printAt 0 (.bin "-" (.lit (.num "1")) (.bin "-" (.lit (.num "2")) (.lit (.num "3")))) =
    [.num "1", .kw "-", .kw "(", .num "2", .kw "-", .num "3", .kw ")"] := by
  have h1 : levelIdx "-" false = 8 := by decide +kernel
  simp [printAt, paren, h1]
example : printAt 0 (.bin "*" (.bin "+" (.lit (.num "1")) (.lit (.num "2"))) (.lit (.num "3"))) =
    [.kw "(", .num "1", .kw "+", .num "2", .kw ")", .kw "*", .num "3"] := by
  have h1 : levelIdx "+" false = 8 := by decide +kernel
  have h2 : levelIdx "*" false = 9 := by decide +kernel
  simp [printAt, paren, h1, h2]
example : Core (.bin "-" (.bin "-" (.lit (.num "1")) (.lit (.num "2"))) (.pol "-" (.dot (.ext "v") (.member "name")))) := by
  refine .bin _ _ _ (by decide +kernel) (.bin _ _ _ (by decide +kernel) (.atom _ (.num _)) (.atom _ (.num _))) (.pol _ _ (Or.inr rfl) (.dot _ _ (.atom _ (.ext _)) (.member _)))

/-- trailing tokens are never accepted: `prog` requires the end of input after the expression -/
theorem trailing_rejected (ts : List Tok) (e : Ex) (h : parseProg ts = some e) :
    ∃ f, exprP f ts = some (e, []) := by
  unfold parseProg at h
  split at h
  · rename_i e' heq; cases h; exact ⟨_, heq⟩
  · cases h

/-- FULL PARENTHESISATION: every tree — operators of all levels, polarity, type operators,
    invocations, indexers and function calls with arguments, nested anywhere — rendered with every
    operator application in its own parentheses parses back to itself, consuming the whole input -/
theorem full_rendering_roundtrip (t : Ex) (h : WfE t) : parseProg (printFull t) = some t :=
  parseProg_of_termR table_ok ((full_all table_ok t).1 h) (by have := (fuelFull_le t).1 h; omega)

/-- every tree of the full-rendering theorem is a tree of the minimal-rendering theorem: function
    calls with arguments count as atoms / invocations because their argument lists are read back -/
theorem minimal_rendering_roundtrip_all (t : Ex) (h : WfE t) : parseProg (printAt 0 t) = some t :=
  minimal_rendering_roundtrip t ((core_of_wf table_ok t).1 h)

/-- the two renderings of a tree parse to the same tree: one compiles iff the other does, and they
    denote the same expression -/
theorem renderings_agree (t : Ex) (h : WfE t) : parseProg (printFull t) = parseProg (printAt 0 t) := by
  rw [full_rendering_roundtrip t h, minimal_rendering_roundtrip_all t h]

/-- REDUNDANT PARENTHESES are transparent: around a whole minimal rendering … -/
theorem redundant_parentheses (t : Ex) (h : Core t) : parseProg (.kw "(" :: printAt 0 t ++ [.kw ")"]) = some t := by
  apply parseProg_of_termR table_ok (exprR_of_core table_ok t h).wrap
  have := depth_le_length t h 0
  simp only [List.length_cons, List.length_append, List.length_nil]; omega

/-- … and around any sub-term, any number of times: if X is read as the term t, so is ( X ) -/
theorem parentheses_transparent (t : Ex) (X : List Tok) (n : Nat) (h : TermR t X n) :
    TermR t (.kw "(" :: X ++ [.kw ")"]) (n + 1) := (h.expr table_ok).wrap

/-- the hypotheses are satisfiable: a call with two arguments inside an operator application -/
example : WfE (.bin "+" (.dot (.ext "v") (.call "where" (.argCons (.bin "=" (.member "a") (.lit (.num "1"))) (.argCons (.lit (.kw "true")) .argNil))))
    (.pol "-" (.lit (.num "2")))) := by
  have h1 : levelIdx "+" false < nLevels := by decide +kernel
  have h2 : levelIdx "=" false < nLevels := by decide +kernel
  simp only [WfE, WfI, WfA]
  exact ⟨h1, ⟨trivial, ⟨h2, trivial, .num _⟩, .tt, trivial⟩, Or.inr trivial, .num _⟩

/-- SUFFIX OPERATORS (as ANTLR's precedence loop reads them): after `left is T` the loop goes on with
    the tighter operators, which take `left is T` as their left operand; a looser operator on the
    left is closed first.  Evaluated by the kernel on the model parser; the same sources are in the
    correspondence stream against the real parser -/
theorem type_operator_is_a_suffix :
    parse "x is T * y" = some (.bin "*" (.typ "is" (.member "x") ["T"]) (.member "y")) ∧
    parse "1 + x is T * 2" = some (.bin "*" (.typ "is" (.bin "+" (.lit (.num "1")) (.member "x")) ["T"]) (.lit (.num "2"))) ∧
    parse "x as T[0]" = some (.idx (.typ "as" (.member "x") ["T"]) (.lit (.num "0"))) ∧
    parse "a = x is T + 1" = some (.bin "=" (.member "a") (.bin "+" (.typ "is" (.member "x") ["T"]) (.lit (.num "1")))) := by
  decide +kernel


/-! ### token gaps: white space, newlines and comments

A decorated source is a list of pieces — white-space characters, block comments, line comments and
tokens with their source text (`Written`).  `SrcOK` asks that no token is followed directly by a
character that would extend it or fuse with it (`follow`: a digit after a number, a letter after a
word, `=` after `<`, `*` or `/` after `/`, …) — white space always qualifies, and so does a comment
except directly after `/` — and that every line comment is followed by a line end or the end of the
input.  Gaps may therefore be empty wherever the tokens stay apart. -/

/-- THE LEXER DROPS THE GAPS: for every decorated source, whatever the white space, newlines and
    comments between its tokens, the lexer returns exactly its tokens -/
theorem lexer_drops_gaps (ps : List Piece) (h : SrcOK ps) : lex (String.ofList (srcText ps)) = srcToks ps :=
  lex_pieces ps h

/-- GAP INSENSITIVITY: two decorations of the same token sequence have the same parse -/
theorem gaps_never_change_the_outcome (ps qs : List Piece) (hp : SrcOK ps) (hq : SrcOK qs)
    (h : srcToks ps = srcToks qs) : parse (String.ofList (srcText ps)) = parse (String.ofList (srcText qs)) := by
  unfold parse
  rw [lex_pieces ps hp, lex_pieces qs hq, h]

theorem srcToks_not_bad (ps : List Piece) (h : SrcOK ps) : ∀ t ∈ srcToks ps, ∀ s, t ≠ .bad s := by
  induction ps with
  | nil => intro t ht; cases ht
  | cons p ps ih =>
    obtain ⟨hp, _, hs⟩ := h
    have e : srcToks (p :: ps) = p.toks ++ srcToks ps := by simp [srcToks]
    rw [e]
    intro t ht
    rcases List.mem_append.mp ht with h1 | h1
    · cases p with
      | tok t' txt =>
        simp only [Piece.toks, List.mem_singleton] at h1
        subst h1; exact written_not_bad hp
      | ws c => cases h1
      | block b => cases h1
      | line b => cases h1
    · exact ih hs t h1

/-- END TO END: every decoration of the minimal rendering of a tree — any white space, newlines and
    comments in any gap — is parsed, from its characters, to that tree -/
theorem decorated_rendering_roundtrip (t : Ex) (h : WfE t) (ps : List Piece) (hok : SrcOK ps)
    (hts : srcToks ps = printAt 0 t) : parse (String.ofList (srcText ps)) = some t := by
  have hl := lex_pieces ps hok
  have hb := srcToks_not_bad ps hok
  rw [hts] at hl hb
  simp only [parse, hl]
  rw [if_neg]
  · exact minimal_rendering_roundtrip_all t h
  · intro hany
    obtain ⟨x, hx, hm⟩ := List.any_eq_true.mp hany
    have := hb x hx
    cases x <;> simp at hm
    exact this _ rfl

/-- … and so is every decoration of its fully parenthesised rendering -/
theorem decorated_full_rendering_roundtrip (t : Ex) (h : WfE t) (ps : List Piece) (hok : SrcOK ps)
    (hts : srcToks ps = printFull t) : parse (String.ofList (srcText ps)) = some t := by
  have hl := lex_pieces ps hok
  have hb := srcToks_not_bad ps hok
  rw [hts] at hl hb
  simp only [parse, hl]
  rw [if_neg]
  · exact full_rendering_roundtrip t h
  · intro hany
    obtain ⟨x, hx, hm⟩ := List.any_eq_true.mp hany
    have := hb x hx
    cases x <;> simp at hm
    exact this _ rfl

/-- white space always separates tokens, and so does the start of a comment except after `/` -/
theorem white_space_and_comments_separate {t : Tok} {txt : List Char} (h : Written t txt) (x : Char)
    (hx : isWs x = true ∨ (x = '/' ∧ t ≠ .kw "/")) : follow t x = false := by
  rcases hx with hx | ⟨hx, ht⟩
  · exact follow_of_stop h x (by simp [isStop, hx]) (fun _ => hx)
  · subst hx; exact follow_of_stop h '/' (by decide) (fun h' => absurd h' ht)

/-- the hypotheses are satisfiable: `1 /* c */ + // d ⏎ x` with its pieces … -/
example : SrcOK [.tok (.num "1") "1".toList, .ws ' ', .block " c ".toList, .ws ' ', .tok (.kw "+") ['+'], .ws ' ',
    .line " d".toList, .ws '\n', .tok (.ident "x") "x".toList] := by
  have w : ∀ c, isWs c = true → (Piece.ws c).OK := fun _ h => h
  refine ⟨.int "1" '1' [] (by decide) (by decide) (by simp), ?_, w _ (by decide), trivial,
    (by show blockOK _ = true; decide), trivial, w _ (by decide), trivial,
    .sym1 '+' (by decide), ?_, w _ (by decide), trivial, (by show lineOK _ = true; decide), ?_, w _ (by decide), trivial,
    .ident "x" (by decide) (by decide), ?_, trivial⟩
  · intro c hc; cases hc; decide
  · intro c hc; cases hc; decide
  · intro c hc; cases hc; exact Or.inr rfl
  · intro c hc; cases hc

/-- … and `(a+1)*b` with no gap at all: adjacent tokens that cannot fuse need no separator -/
example : SrcOK [.tok (.kw "(") ['('], .tok (.ident "a") "a".toList, .tok (.kw "+") ['+'], .tok (.num "1") "1".toList,
    .tok (.kw ")") [')'], .tok (.kw "*") ['*'], .tok (.ident "b") "b".toList] := by
  refine ⟨.sym1 '(' (by decide), ?_, .ident "a" (by decide) (by decide), ?_, .sym1 '+' (by decide), ?_,
    .int "1" '1' [] (by decide) (by decide) (by simp), ?_, .sym1 ')' (by decide), ?_, .sym1 '*' (by decide), ?_,
    .ident "b" (by decide) (by decide), ?_, trivial⟩ <;>
  · intro c hc; cases hc <;> decide

/-- the side condition on `/` is needed: a comment directly after the division operator fuses with
    it into a line comment (kernel evaluation of the model lexer; the same source is in the
    correspondence stream) -/
theorem comment_after_slash_fuses : lex "4 //* c */ 2" = [.num "4"] ∧ lex "4 / /* c */ 2" = [.num "4", .kw "/", .num "2"] := by
  decide +kernel

/-! ### evaluation of the renderings (the assembled evaluator, FP.Model.Eval) -/

open FP.Model.Eval in
/-- EVALUATE IDENTICALLY: for every expression tree, the minimally and the fully parenthesised
    rendering go through Compile and Evaluate to the same outcome — same result collection, same
    evaluation error, or both rejected by Compile — for every function table, every environment
    and every input collection -/
theorem renderings_evaluate_identically (t : Ex) (h : WfE t) (tbl : List FP.Gen.FuncTable.Entry)
    (env : Env) (input : List FP.Model.Val) :
    runToks tbl (printAt 0 t) env input = runToks tbl (printFull t) env input := by
  unfold runToks
  rw [renderings_agree t h]

open FP.Model.Eval in
/-- … and the outcome is that of the tree itself: parentheses carry no meaning of their own -/
theorem rendering_evaluates_the_tree (t : Ex) (h : WfE t) (tbl : List FP.Gen.FuncTable.Entry)
    (env : Env) (input : List FP.Model.Val) :
    runToks tbl (printAt 0 t) env input = finish env input (compile tbl t false) := by
  unfold runToks
  rw [minimal_rendering_roundtrip_all t h]

open FP.Model.Eval in
/-- WHITE SPACE AND COMMENTS NEVER CHANGE THE OUTCOME, from characters to result: any decoration of
    the minimal rendering and any decoration of the full rendering of one tree — white space,
    newlines, block and line comments in the gaps — compile and evaluate to the same outcome -/
theorem decorated_renderings_evaluate_identically (t : Ex) (h : WfE t) (ps qs : List Piece)
    (hp : SrcOK ps) (hq : SrcOK qs) (hps : srcToks ps = printAt 0 t) (hqs : srcToks qs = printFull t)
    (tbl : List FP.Gen.FuncTable.Entry) (env : Env) (input : List FP.Model.Val) :
    run tbl (String.ofList (srcText ps)) env input = run tbl (String.ofList (srcText qs)) env input := by
  unfold run
  rw [decorated_rendering_roundtrip t h ps hp hps, decorated_full_rendering_roundtrip t h qs hq hqs]

open FP.Model.Eval in
/-- two decorations of one token sequence evaluate alike whether or not the sequence parses -/
theorem gaps_never_change_the_evaluation (ps qs : List Piece) (hp : SrcOK ps) (hq : SrcOK qs)
    (h : srcToks ps = srcToks qs) (tbl : List FP.Gen.FuncTable.Entry) (env : Env) (input : List FP.Model.Val) :
    run tbl (String.ofList (srcText ps)) env input = run tbl (String.ofList (srcText qs)) env input := by
  unfold run
  rw [gaps_never_change_the_outcome ps qs hp hq h]

/-! ### the visitor's shape, regenerated from parser/visitor.go -/

section VisitorShape
open FP.Gen.Visitor FP.Model.Eval

/-- who visits which child, per Visit* method, as `FP.Model.Eval.compile` is written:
    * the eight binary-operator methods and the indexer visit their LEFT operand themselves and the RIGHT
      operand with a clone (`compile t r false`, flag thrown away);
    * invocation (`a.b`), type (`a is T`), polarity, parenthesised, term, function and parameter-list
      methods visit every child themselves (the `visitedRoot` flag is threaded through, in source order);
    * only `VisitMemberInvocation` writes the flag;
    * union, membership (`in` / `contains`), `$index`, `$total`, a bare quantity / unit / precision and the
      bare external constant are rejected at once (`errNotSupported`; `.error` in `compile`). -/
def expectedShape : List (String × List String × Bool × Bool) :=
  [("VisitAdditiveExpression", ["self", "clone"], false, false), ("VisitAndExpression", ["self", "clone"], false, false),
   ("VisitBooleanLiteral", [], false, false), ("VisitDateLiteral", [], false, false), ("VisitDateTimeLiteral", [], false, false),
   ("VisitDateTimePrecision", [], false, true), ("VisitEqualityExpression", ["self", "clone"], false, false),
   ("VisitExternalConstant", [], false, true), ("VisitExternalConstantTerm", [], false, false),
   ("VisitFunction", ["self"], false, false), ("VisitFunctionInvocation", ["self"], false, false),
   ("VisitIdentifier", [], false, true), ("VisitImpliesExpression", ["self", "clone"], false, false),
   ("VisitIndexInvocation", [], false, true), ("VisitIndexerExpression", ["self", "clone"], false, false),
   ("VisitInequalityExpression", ["self", "clone"], false, false), ("VisitInvocationExpression", ["self", "self"], false, false),
   ("VisitInvocationTerm", ["self"], false, false), ("VisitLiteralTerm", ["self"], false, false),
   ("VisitMemberInvocation", [], true, false), ("VisitMembershipExpression", [], false, true),
   ("VisitMultiplicativeExpression", ["self", "clone"], false, false), ("VisitNullLiteral", [], false, false),
   ("VisitNumberLiteral", [], false, false), ("VisitOrExpression", ["self", "clone"], false, false),
   ("VisitParamList", ["self"], false, false), ("VisitParenthesizedTerm", ["self"], false, false),
   ("VisitPluralDateTimePrecision", [], false, true), ("VisitPolarityExpression", ["self"], false, false),
   ("VisitProg", ["self"], false, false), ("VisitQualifiedIdentifier", [], false, false), ("VisitQuantity", [], false, true),
   ("VisitQuantityLiteral", [], false, false), ("VisitStringLiteral", [], false, false), ("VisitTermExpression", ["self"], false, false),
   ("VisitThisInvocation", [], false, false), ("VisitTimeLiteral", [], false, false), ("VisitTotalInvocation", [], false, true),
   ("VisitTypeExpression", ["self", "self"], false, false), ("VisitTypeSpecifier", ["self"], false, false),
   ("VisitUnionExpression", [], false, true), ("VisitUnit", [], false, true)]

/-- the visitor of the current source has exactly the shape the model's `compile` is written after, and a
    clone starts with the flag cleared and the same function table, transform and mode.  A visitor that
    clones where the model threads the flag (or the reverse), writes the flag elsewhere, or carries another
    table into a clone breaks this before any program is evaluated. -/
theorem visitor_shape_as_modelled :
    methods.map (fun m => (m.name, m.visits.map (·.1), m.writesRoot, m.unsupported)) = expectedShape ∧
    (methods.all fun m => m.visits.all fun v => v.1 == "self" || v.1 == "clone") = true ∧
    cloneFields = ["Functions=v.Functions", "Transform=v.Transform", "Permissive=v.Permissive", "visitedRoot=false"] := by
  decide +kernel

/-- what the shape means in the model: the right operand of a binary operator is compiled with a cleared
    flag whatever the flag was, its own flag is thrown away (the result carries the left operand's), and it
    must compile for the whole to compile -/
theorem right_operand_compiled_with_cleared_flag (t : List FP.Gen.FuncTable.Entry) (o : String) (l r : Ex) (vr vr1 : Bool) (cl : E)
    (hl : compile t l vr = .ok (cl, vr1)) :
    (compile t r false = .error → compile t (.bin o l r) vr = .error) ∧
    (∀ e v, compile t (.bin o l r) vr = .ok (e, v) → v = vr1 ∧ ∃ cr v2, compile t r false = .ok (cr, v2)) := by
  constructor
  · intro hr; simp [compile, hl, hr, CRes.bind]
  · intro e v h
    simp only [compile, hl, CRes.bind] at h
    cases hr : compile t r false with
    | error => simp [hr] at h
    | unmodelled => simp [hr] at h
    | ok q =>
      refine ⟨?_, q.1, q.2, rfl⟩
      simp only [hr] at h
      split at h
      · simp at h; exact h.2.symm
      · simp at h; exact h.2.symm
      · simp at h; exact h.2.symm
      · split at h
        · simp at h; exact h.2.symm
        · split at h
          · simp at h; exact h.2.symm
          · split at h
            · simp at h; exact h.2.symm
            · simp at h

end VisitorShape

/-! ### the shape of the `Evaluate` methods, regenerated from expr/expressions.go -/

section EvalShape
open FP.Model FP.Model.Eval

/-- which sub-expression each `Evaluate` method evaluates, with which context and on which collection, as
    `FP.Model.Eval.eval` is written: both operands of every binary expression on the method's own input (each
    with a clone of the context), the operand of `is` / `as` / negation and the index of an indexer on the
    input, a sequence step on the output of the step before; the remaining methods evaluate no
    sub-expression themselves (a function's arguments are handed to the implementation unevaluated). -/
def expectedEvalShape : List (String × List (String × String × String)) :=
  [("ArithmeticExpression", [("e.Left", "ctx.Clone()", "input"), ("e.Right", "ctx.Clone()", "input")]),
   ("AsExpression", [("e.Expr", "ctx", "input")]),
   ("BooleanExpression", [("e.Left", "ctx.Clone()", "input"), ("e.Right", "ctx.Clone()", "input")]),
   ("ComparisonExpression", [("e.Left", "ctx.Clone()", "input"), ("e.Right", "ctx.Clone()", "input")]),
   ("ConcatExpression", [("e.Left", "ctx.Clone()", "input"), ("e.Right", "ctx.Clone()", "input")]),
   ("EqualityExpression", [("e.Left", "ctx.Clone()", "input"), ("e.Right", "ctx.Clone()", "input")]),
   ("ExpressionSequence", [("expr", "ctx", "output")]),
   ("ExternalConstantExpression", []), ("FieldExpression", []), ("FunctionExpression", []), ("IdentityExpression", []),
   ("IndexExpression", [("e.Index", "ctx", "input")]), ("IsExpression", [("e.Expr", "ctx", "input")]),
   ("LiteralExpression", []), ("NegationExpression", [("e.Expr", "ctx", "input")]), ("TypeExpression", [])]

theorem evaluate_shape_as_modelled : FP.Gen.EvalShape.methods = expectedEvalShape := by decide +kernel

/-- what the shape means in the model: the two operands of a binary expression are evaluated on the same
    input, left first, and an error of the left operand is the result whatever the right one does; the index
    of an indexer is evaluated on the collection being indexed; a sequence feeds each step the result of the
    step before -/
theorem operands_evaluated_on_the_same_input (env : Env) (op : ArithOp) (l r : E) (input : List Val) :
    (∀ m, eval env l input = .err m → eval env (.arith op l r) input = .err m) ∧
    (∀ lv rv, eval env l input = .ok lv → eval env r input = .ok rv → eval env (.arith op l r) input = arithEv op lv rv) ∧
    (∀ iv, eval env l input = .ok iv → eval env (.index l) input = indexColl iv input) ∧
    (∀ mid, eval env l input = .ok mid → eval env (.seq l r) input = eval env r mid) := by
  refine ⟨?_, ?_, ?_, ?_⟩
  · intro m h; simp [eval, h, Res.bind]
  · intro lv rv hl hr; simp [eval, hl, hr, Res.bind]
  · intro iv h; simp [eval, h, Res.bind]
  · intro mid h; simp [eval, h, Res.bind]

end EvalShape

open FP.Model.Eval in
/-- non-vacuity and a test of the assembled pipeline on a concrete program (a test, not the claim) -/
example : run FP.Gen.FuncTable.baseTable "%a.where($this > 1).count() + 2 * 3"
    [("a", [.int 1, .int 2, .int 3])] [] = .result [.int 8] := by decide +kernel

end FP.Props.C11
