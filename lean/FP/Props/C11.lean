/-
  C11 — parsing respects FHIRPath precedence, associativity and token boundaries.
-/
import FP.Model.Syntax
namespace FP.Props.C11
open FP FP.Model.Syntax FP.Gen.Grammar

/-- the precedence levels of the grammar file, loosest first, are the thirteen levels of the
    FHIRPath specification in the specification's order -/
theorem levels_as_specified : levels =
    [(["implies"], false), (["or", "xor"], false), (["and"], false), (["in", "contains"], false),
     (["=", "~", "!=", "!~"], false), (["<=", "<", ">", ">="], false), (["|"], false), (["is", "as"], true),
     (["+", "-", "&"], false), (["*", "/", "div", "mod"], false)] := by decide +kernel

/-- the alternatives that are not binary come first, in the order term, invocation, indexer,
    polarity: postfix binds tighter than polarity, polarity tighter than every binary operator —
    the reading the stratified model parser implements -/
theorem tight_alternatives_first :
    (alternatives.take 4).map (·.2.1) = ["term", "postfix-invocation", "postfix-index", "prefix"] ∧
    (alternatives.drop 4).all (fun a => a.2.1 == "binary" || a.2.1 == "type") = true := by decide +kernel

end FP.Props.C11
