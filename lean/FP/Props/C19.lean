/-
  C19 — reference and identity parsing and formatting are mutual inverses.
  Model: FP.Model.Refs (hand model of LiteralInfoFromURI / URIString / reference.Is /
  canonical.IdentityFromReference), resource type names from the descriptor-derived table.
-/
import FP.Model.Refs
import FP.Lemmas.Refs
namespace FP.Props.C19
open FP FP.Model FP.Lemmas

def WfIdent (x : Ident) : Prop := isType x.type = true ∧ isID x.id = true ∧ (x.vid = [] ∨ isID x.vid = true)

/-- a service base as `WithServiceBaseURL` accepts it: valid with a trailing slash added, not ending in one -/
def WfBase (b : S) : Prop := isBaseWithSlash (b ++ ['/']) = true ∧ b.getLast? ≠ some '/'

theorem restParse_identString (x : Ident) (h : WfIdent x) :
    restParse (identString x) = some { ident := some x } := by
  obtain ⟨t, i, v⟩ := x
  obtain ⟨ht, hi, hv⟩ := h
  simp only at ht hi hv
  rcases hv with hv | hv
  · subst hv; simpa [identString] using parse_rel t i ht hi
  · have hne : v ≠ [] := by intro e; subst e; simp [isID] at hv
    have : v.isEmpty = false := by cases v <;> simp_all
    simpa [identString, this] using parse_rel_versioned t i v ht hi hv

theorem restParse_abs (b : S) (x : Ident) (hb : WfBase b) (h : WfIdent x) :
    restParse (b ++ ['/'] ++ identString x) = some { ident := some x, base := b } := by
  obtain ⟨t, i, v⟩ := x
  obtain ⟨ht, hi, hv⟩ := h
  simp only at ht hi hv
  rcases hv with hv | hv
  · subst hv; simpa [identString] using parse_abs b t i hb.1 hb.2 ht hi
  · have : v.isEmpty = false := by cases v <;> simp_all [isID]
    simpa [identString, this] using parse_abs_versioned b t i v hb.1 hb.2 ht hi hv

def okc (c : Char) : Bool := c.isAlphanum || c == '-' || c == '.' || c == '/' || c == '_'

theorem okc_of_idChar (c : Char) (h : isIdChar c = true) : okc c = true := by
  simp only [isIdChar, Bool.or_eq_true] at h
  simp only [okc, Bool.or_eq_true]
  rcases h with (h | h) | h
  · exact Or.inl (Or.inl (Or.inl (Or.inl h)))
  · exact Or.inl (Or.inl (Or.inl (Or.inr h)))
  · exact Or.inl (Or.inl (Or.inr h))

theorem okc_of_alpha (c : Char) (h : c.isAlpha = true) : okc c = true := by
  simp [okc, Char.isAlphanum, h]

theorem all_okc_id (s : S) (h : isID s = true) : s.all okc = true := by
  simp only [isID, Bool.and_eq_true, List.all_eq_true] at h
  exact List.all_eq_true.mpr (fun c hc => okc_of_idChar c (h.2 c hc))

theorem all_okc_type (t : S) (h : isType t = true) : t.all okc = true :=
  List.all_eq_true.mpr (fun c hc => okc_of_alpha c (List.all_eq_true.mp (isType_alpha t h) c hc))

theorem identString_all_okc (x : Ident) (h : WfIdent x) : (identString x).all okc = true := by
  obtain ⟨t, i, v⟩ := x
  obtain ⟨ht, hi, hv⟩ := h
  simp only at ht hi hv
  have h1 := all_okc_type t ht
  have h2 := all_okc_id i hi
  have h3 : ("/_history/".toList).all okc = true := by decide
  have h4 : v.all okc = true := by
    rcases hv with hv | hv
    · subst hv; rfl
    · exact all_okc_id v hv
  have hs : okc '/' = true := by decide
  unfold identString
  split
  · simp [List.all_append, h1, h2, hs]
  · simp [List.all_append, h1, h2, h4, hs]
    decide

theorem okc_not_hash_bar (c : Char) (h : okc c = true) : c ≠ '#' ∧ c ≠ '|' := by
  constructor <;> (intro e; subst e; revert h; decide)

/-- characters of a formatted identity: nothing that the early rejections look for -/
theorem identString_clean (x : Ident) (h : WfIdent x) :
    (identString x).contains '#' = false ∧ (identString x).contains '|' = false ∧ (identString x).head? ≠ some '#' ∧ identString x ≠ [] := by
  have hall := List.all_eq_true.mp (identString_all_okc x h)
  have hne : identString x ≠ [] := by
    obtain ⟨t, i, v⟩ := x
    unfold identString; split <;> simp
  refine ⟨?_, ?_, ?_, hne⟩
  · simp only [List.contains_eq_mem, decide_eq_false_iff_not]
    intro m; exact (okc_not_hash_bar _ (hall _ m)).1 rfl
  · simp only [List.contains_eq_mem, decide_eq_false_iff_not]
    intro m; exact (okc_not_hash_bar _ (hall _ m)).2 rfl
  · intro hh
    cases hs : identString x with
    | nil => exact hne hs
    | cons c cs =>
      rw [hs] at hh; simp at hh; subst hh
      have := hall '#' (by rw [hs]; simp)
      revert this; decide

/-- Formatting an identity and parsing it back returns the same components — for every resource
    type, id and version. -/
theorem parse_format_identity (x : Ident) (h : WfIdent x) :
    literalInfoFromURI (identString x) = .ok { ident := some x } := by
  have hc := identString_clean x h
  unfold literalInfoFromURI
  cases hs : identString x with
  | nil => exact absurd hs hc.2.2.2
  | cons c cs =>
    have hc1 : c ≠ '#' := by intro e; apply hc.2.2.1; rw [hs, e]; rfl
    rw [hs] at hc
    have hr := restParse_identString x h
    rw [hs] at hr
    split
    · rename_i heq; cases heq
    · rename_i f heq; cases heq; exact absurd rfl hc1
    · simp only [hc.1, hc.2.1, Bool.or_self, Bool.false_eq_true, if_false, hr]

/-- …and formatting the parsed information returns the input string (canonical form) -/
theorem format_parse_identity (x : Ident) : uriString { ident := some x } = identString x := by
  simp [uriString]

/-- a fragment reference round-trips -/
theorem parse_format_fragment (f : S) (h : f = [] ∨ isID f = true) :
    literalInfoFromURI (uriString { fragment := some f }) = .ok { fragment := some f } := by
  simp only [uriString, literalInfoFromURI]
  rcases h with h | h
  · subst h; simp
  · simp [h]

/-- non-REST URIs (URNs, …) are kept verbatim: formatting returns the input -/
theorem nonrest_format (u : S) : uriString { nonRest := some u } = u := by simp [uriString]

/-- rejected strings produce an error (or are outside the modelled alphabet), never a crash:
    the model of the parser is total, including on the empty string -/
theorem empty_rejected : literalInfoFromURI [] = .err := rfl

/-! ### reference identity comparison is an equivalence -/

/-- coherence of the abstraction: structurally equal references have equal parts, and a reference
    without `reference` has no identity -/
def Coherent (rs : List RefA) : Prop :=
  (∀ a ∈ rs, ∀ b ∈ rs, a.whole = b.whole → a = b) ∧ (∀ a ∈ rs, a.hasRef = false → a.identity = none)

theorem refIs_refl (a : RefA) : refIs a a = true := by simp [refIs]

theorem refIs_symm (a b : RefA) : refIs a b = refIs b a := by
  unfold refIs
  have e1 : (a.whole == b.whole) = (b.whole == a.whole) := by
    by_cases h : a.whole = b.whole
    · rw [h]
    · have h' : ¬ b.whole = a.whole := fun e => h e.symm
      rw [beq_eq_false_iff_ne.mpr h, beq_eq_false_iff_ne.mpr h']
  have e2 : (a.identifier != b.identifier) = (b.identifier != a.identifier) := by
    by_cases h : a.identifier = b.identifier
    · rw [h]
    · have h' : ¬ b.identifier = a.identifier := fun e => h e.symm
      simp only [bne, beq_eq_false_iff_ne.mpr h, beq_eq_false_iff_ne.mpr h']
  have e3 : (a.hasRef || b.hasRef) = (b.hasRef || a.hasRef) := Bool.or_comm _ _
  have e4 : identEq a.identity b.identity = identEq b.identity a.identity := by
    cases a.identity <;> cases b.identity <;> simp [identEq]
    rename_i x y
    by_cases h : x = y
    · rw [h]
    · have h' : ¬ y = x := fun e => h e.symm
      rw [beq_eq_false_iff_ne.mpr h, beq_eq_false_iff_ne.mpr h']
  rw [e1, e2, e3, e4]

theorem refIs_trans (rs : List RefA) (hc : Coherent rs) (a b c : RefA) (ha : a ∈ rs) (hb : b ∈ rs) (hcm : c ∈ rs) :
    refIs a b = true → refIs b c = true → refIs a c = true := by
  intro h1 h2
  by_cases hab : a.whole = b.whole
  · have := hc.1 a ha b hb hab; subst this; exact h2
  · by_cases hbc : b.whole = c.whole
    · have := hc.1 b hb c hcm hbc; subst this; exact h1
    · unfold refIs at h1 h2 ⊢
      simp only [beq_iff_eq, hab, hbc, if_false, bne_iff_ne, ne_eq] at h1 h2
      by_cases hac : a.whole = c.whole
      · simp [hac]
      · simp only [beq_iff_eq, hac, if_false, bne_iff_ne, ne_eq]
        by_cases i1 : a.identifier = b.identifier
        · by_cases i2 : b.identifier = c.identifier
          · have i3 : a.identifier = c.identifier := i1.trans i2
            simp only [i1, i2, i3, not_true_eq_false, if_false] at h1 h2 ⊢
            -- identities
            have nb := hc.2 b hb
            have na := hc.2 a ha
            have nc := hc.2 c hcm
            cases hra : a.hasRef <;> cases hrb : b.hasRef <;> cases hrc : c.hasRef <;>
              simp_all [identEq] <;> (cases hia : a.identity <;> cases hib : b.identity <;> cases hic : c.identity <;> simp_all [identEq])
          · simp [i2] at h2
        · simp [i1] at h1

/-! ### canonical URLs split and reassemble -/

def WfCanon (c : Canon) : Prop :=
  c.url ≠ [] ∧ (∀ ch ∈ c.url, ch ≠ '|' ∧ ch ≠ '#') ∧
  (∀ ch ∈ c.version, isCanonChar ch = true) ∧ (∀ ch ∈ c.fragment, isCanonChar ch = true) ∧ c.fragment.length ≤ 64

theorem takeWhile_append_stop {α : Type} (p : α → Bool) (l r : List α) (x : α) (hl : ∀ a ∈ l, p a = true) (hx : p x = false) :
    (l ++ x :: r).takeWhile p = l ∧ (l ++ x :: r).dropWhile p = x :: r := by
  induction l with
  | nil => simp [hx]
  | cons a as ih =>
    have ha := hl a (by simp)
    have := ih (fun b hb => hl b (List.mem_cons_of_mem _ hb))
    simp [ha, this]

theorem takeWhile_all {α : Type} (p : α → Bool) (l : List α) (hl : ∀ a ∈ l, p a = true) :
    l.takeWhile p = l ∧ l.dropWhile p = [] := by
  induction l with
  | nil => simp
  | cons a as ih =>
    have ha := hl a (by simp)
    have := ih (fun b hb => hl b (List.mem_cons_of_mem _ hb))
    simp [ha, this]

theorem canonChar_not_sep (ch : Char) (h : isCanonChar ch = true) : ch ≠ '#' ∧ ch ≠ '|' := by
  constructor <;> (intro e; subst e; simp [isCanonChar] at h)

/-- well-formed canonical URLs split into url|version#fragment and reassemble unchanged -/
theorem canonical_split_reassemble (c : Canon) (h : WfCanon c) : canonParse (canonFormat c) = some c := by
  obtain ⟨url, ver, frag⟩ := c
  obtain ⟨hu, huc, hv, hf, hfl⟩ := h
  simp only at hu huc hv hf hfl
  have pu : ∀ a ∈ url, (a != '|' && a != '#') = true := by
    intro a ha; have := huc a ha; simp [this.1, this.2]
  have hsharpNot : isCanonChar '#' = false := by decide
  unfold canonParse canonFormat
  simp only
  by_cases hve : ver = []
  · subst hve
    by_cases hfe : frag = []
    · subst hfe
      have t := takeWhile_all _ url pu
      simp [t.1, t.2, hu]
    · have hx : ('#' != '|' && '#' != '#') = false := by decide
      have t := takeWhile_append_stop _ url frag '#' pu hx
      have tf := takeWhile_all _ frag hf
      have : frag.isEmpty = false := by cases frag <;> simp_all
      simp [this, t.1, t.2, hu, tf.1, List.take_of_length_le hfl]
  · have hvne : ver.isEmpty = false := by cases ver <;> simp_all
    have hx : ('|' != '|' && '|' != '#') = false := by decide
    by_cases hfe : frag = []
    · subst hfe
      have t := takeWhile_append_stop _ url ver '|' pu hx
      have tv := takeWhile_all _ ver hv
      simp [hvne, t.1, t.2, hu, tv.1, tv.2, hve]
    · have hfne : frag.isEmpty = false := by cases frag <;> simp_all
      have t := takeWhile_append_stop _ url (ver ++ '#' :: frag) '|' pu hx
      have tv := takeWhile_append_stop _ ver frag '#' hv hsharpNot
      have tf := takeWhile_all _ frag hf
      simp [hvne, hfne, t.1, t.2, hu, tv.1, tv.2, hve, tf.1, List.take_of_length_le hfl]

example : literalInfoFromURI "Patient/1/_history/2".toList = .ok { ident := some ⟨"Patient".toList, "1".toList, "2".toList⟩ } := by decide +kernel
example : literalInfoFromURI "http://example.org/fhir/Patient/1".toList =
    .ok { ident := some ⟨"Patient".toList, "1".toList, []⟩, base := "http://example.org/fhir".toList } := by decide +kernel
example : literalInfoFromURI "urn:uuid:53fefa32".toList = .ok { nonRest := some "urn:uuid:53fefa32".toList } := by decide +kernel
example : WfBase "https://a.b:8080/x/y".toList := by unfold WfBase; decide +kernel

end FP.Props.C19
