/-
  C16 — every built-in function is callable under its specification name and arity.
  All statements are about `FP.Gen.FuncTable` (regenerated from funcs/table.go on every run)
  and the written-out N1 list `FP.Ref.n1`; they are decided by kernel evaluation (`decide`).
-/
import FP.Model.FuncTable
import FP.Ref.N1
import FP.Model.Eval
namespace FP.Props.C16
open FP FP.Model FP.Ref FP.Gen.FuncTable

/-- Compile accepts a call exactly when the name is in the table and the count is within bounds. -/
theorem accept_iff (t : List Entry) (name : String) (n : Nat) :
    (∃ i, compileCall t name n = .accepted i) ↔
      ∃ e, lookup t name = some e ∧ e.min ≤ n ∧ n ≤ e.max := by
  unfold compileCall
  cases h : lookup t name with
  | none => simp
  | some e =>
    by_cases c : (n < e.min || n > e.max) = true
    · simp [c]; simp at c; omega
    · simp [c]; simp at c; omega

/-- …and an accepted call is bound to that entry's implementation. -/
theorem accepted_impl (t : List Entry) (name : String) (n : Nat) (i : String)
    (h : compileCall t name n = .accepted i) : ∃ e, lookup t name = some e ∧ e.impl = i := by
  unfold compileCall at h
  cases hl : lookup t name with
  | none => simp [hl] at h
  | some e =>
    simp only [hl] at h
    split at h
    · cases h
    · cases h; exact ⟨e, rfl, rfl⟩

def specReachable (t : List Entry) (s : Spec) : Bool :=
  match lookup t s.name with
  | none => false
  | some e => s.arities.all (fun k => e.min ≤ k && k ≤ e.max)

/-- Every N1 function is reachable under its specification name with each argument count the
    specification allows. -/
theorem spec_names_and_arities_reachable : n1.all (specReachable baseTable) = true := by decide

def boundToSameName (e : Entry) : Bool := e.impl == "unimplemented" || e.impl == implName e.name

/-- Every entry (base and experimental) is bound to the implementation of that same name, or to
    the explicit not-implemented placeholder. -/
theorem bound_to_same_name : (baseTable ++ experimentalTable).all boundToSameName = true := by decide

def noExtraArities (t : List Entry) (s : Spec) : Bool :=
  match lookup t s.name with
  | none => true
  | some e => (List.range 6).all (fun k => !(e.min ≤ k && k ≤ e.max) || s.arities.contains k) && e.max < 6

/-- Conversely the table accepts no argument count the specification does not allow. -/
theorem no_extra_arities : n1.all (noExtraArities baseTable) = true := by decide

/-- the same for the functions of the experimental table, under WithExperimentalFuncs: each is
    reachable with every argument count of its specification and with no other -/
theorem experimental_reachable :
    experimentalSpec.all (specReachable (tableFor true)) = true ∧ experimentalSpec.all (noExtraArities (tableFor true)) = true ∧
    experimentalTable.all (fun e => experimentalSpec.any (fun s => s.name == e.name)) = true := by decide

/-- The names that are not implemented are exactly these, each bound to the placeholder that
    returns the explicit not-implemented error (never to some other function). -/
def notImplementedNames : List String :=
  ["combine", "ofType", "repeat", "single", "subsetOf", "supersetOf", "trace", "union"]
theorem unimplemented_explicit :
    (baseTable.filter (fun e => e.impl == "unimplemented")).map (·.name) = notImplementedNames := by decide

/-- names are unique, so `lookup` is the table (Go map) lookup -/
theorem names_unique : (baseTable.map (·.name)).Nodup ∧ (experimentalTable.map (·.name)).Nodup := by decide

/-- experimental functions never shadow or alter a base entry -/
theorem experimental_preserves_base :
    baseTable.all (fun e => lookup (withExperimental baseTable) e.name == some e) = true := by decide

example : compileCall baseTable "power" 1 = .accepted "impl.Power" := by decide
example : compileCall baseTable "power" 0 = .arity := by decide
example : compileCall baseTable "nosuch" 0 = .unresolved := by decide
example : compileCall (tableFor true) "join" 1 = .accepted "impl.Join" := by decide

/-! ### Compile of a call, in the assembled visitor model (FP.Model.Eval.compile) -/

section Expr
open FP.Model.Eval

/-- Compile accepts a call EXACTLY when the name is in the function table and the number of written
    arguments lies within that entry's bounds (the arguments themselves compiling) — whatever the
    arguments are and wherever the call stands -/
theorem expr_call_accepted_iff (tbl : List Entry) (n : String) (as : Syntax.Ex) (vr : Bool) (cas : E) (vr' : Bool)
    (ha : compile tbl as vr = .ok (cas, vr')) :
    compile tbl (.call n as) vr ≠ .error ↔
      ∃ ent, lookup tbl n = some ent ∧ ent.min ≤ argCount as ∧ argCount as ≤ ent.max := by
  simp only [compile]
  cases hl : lookup tbl n with
  | none => simp
  | some ent =>
    simp only [ha, CRes.bind, Option.some.injEq, exists_eq_left']
    by_cases h1 : argCount as < ent.min
    · simp [h1]; try omega
    · by_cases h2 : argCount as > ent.max
      · simp [h1, h2]; try omega
      · simp only [h1, h2, decide_false, Bool.or_self, Bool.false_eq_true, if_false]
        constructor
        · intro _; omega
        · intro _; split <;> (try split) <;> simp

/-- a call whose argument list does not compile does not compile -/
theorem expr_call_bad_argument (tbl : List Entry) (n : String) (as : Syntax.Ex) (vr : Bool)
    (ha : compile tbl as vr = .error) : compile tbl (.call n as) vr = .error := by
  simp only [compile]
  cases lookup tbl n <;> simp [ha, CRes.bind]

/-- a function the table binds to the placeholder fails when evaluated, with the explicit error -/
theorem expr_unimplemented_fails (env : Env) (args : E) (input : List FP.Model.Val) :
    eval env (.fn "unimplemented!" args) input = .err "not-implemented" := by
  simp [eval]

end Expr

/-- `join` is a function of the experimental table only: against the base table Compile rejects the call whatever its
    arguments are; with the experimental entries added it is accepted with no or one argument and with no other count -/
theorem join_needs_the_experimental_table (as : FP.Model.Syntax.Ex) (vr : Bool) :
    FP.Model.Eval.compile FP.Gen.FuncTable.baseTable (.call "join" as) vr = .error := by
  have : lookup FP.Gen.FuncTable.baseTable "join" = none := by decide +kernel
  simp [FP.Model.Eval.compile, this]

theorem join_in_the_experimental_table :
    (lookup (withExperimental FP.Gen.FuncTable.baseTable) "join").map (fun e => (e.impl, e.min, e.max)) = some ("impl.Join", 0, 1) := by
  decide +kernel

end FP.Props.C16
