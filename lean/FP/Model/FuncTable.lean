/-
  FP.Model.FuncTable — hand model of the compile-time lookup and arity check of
  `FHIRPathVisitor.VisitFunction` (parser/visitor.go:452) and of option handling
  (`funcs.Clone`, `AddExperimentalFuncs`) over the *regenerated* tables.
-/
import FP.Basic
import FP.Gen.FuncTable
namespace FP.Model
open FP.Gen.FuncTable

def lookup (t : List Entry) (name : String) : Option Entry := t.find? (fun e => e.name == name)

/-- `AddExperimentalFuncs`: experimental entries are added unless the name already exists -/
def withExperimental (t : List Entry) : List Entry :=
  t ++ experimentalTable.filter (fun e => (lookup t e.name).isNone)

def tableFor (experimental : Bool) : List Entry :=
  if experimental then withExperimental baseTable else baseTable

inductive CompileOutcome where
  | accepted (impl : String)
  | unresolved
  | arity
deriving DecidableEq, Repr

/-- VisitFunction with `n` (well-formed) arguments -/
def compileCall (t : List Entry) (name : String) (n : Nat) : CompileOutcome :=
  match lookup t name with
  | none => .unresolved
  | some e => if n < e.min || n > e.max then .arity else .accepted e.impl

end FP.Model
