/-
  FP.Model.Heap — a small model of Go slices over a heap of backing arrays, enough to state
  what `append` can do to memory the caller owns.  A slice is (array id, offset, len, cap);
  `append` writes in place when len < cap and allocates a new array otherwise; `s[a:b]` shares
  the array.  Evaluation code is modelled only by what it does to slices: it reads them,
  re-slices them, and appends to them.
-/
namespace FP.Model

structure Slice where
  arr : Nat
  off : Nat
  len : Nat
  cap : Nat        -- capacity counted from `off`
deriving DecidableEq, Repr

/-- heap: contents of each backing array (array id = position) -/
abbrev Heap := List (List Nat)

def Heap.read (h : Heap) (a : Nat) : List Nat := h.getD a []

def setAt (l : List Nat) (i : Nat) (x : Nat) : List Nat := l.set i x

/-- `append(s, x)`: in place if there is spare capacity, else copy into a fresh array -/
def appendS (h : Heap) (s : Slice) (x : Nat) : Heap × Slice :=
  if s.len < s.cap then
    (h.set s.arr (setAt (h.read s.arr) (s.off + s.len) x), { s with len := s.len + 1 })
  else
    let contents := ((h.read s.arr).drop s.off).take s.len ++ [x]
    (h ++ [contents ++ List.replicate s.len 0], { arr := h.length, off := 0, len := s.len + 1, cap := 2 * s.len + 1 })

/-- `s[a:b]` -/
def reslice (s : Slice) (a b : Nat) : Slice := { s with off := s.off + a, len := b - a, cap := s.cap - a }

/-- a fresh collection `system.Collection{}` / `var c Collection` / make: a new array -/
def freshS (h : Heap) : Heap × Slice := (h ++ [[]], { arr := h.length, off := 0, len := 0, cap := 0 })

end FP.Model
