/-
  FP.Model.Refs — hand model of reference / identity parsing and formatting:
  `reference.LiteralInfoFromURI` (literal.go:277), `LiteralInfo.URIString` (:163),
  `resource.Identity` formatting (identity.go), `reference.Is` (reference.go),
  `canonical.IdentityFromReference` (canonical.go:132).
  The REST regexp of identity.go:18 is modelled as a suffix recogniser on '/'-separated
  segments: the last two segments are `Type/id`, or the last four `Type/id/_history/vid`;
  what precedes is empty or `http(s)://` followed by one or more `seg/` over the base charset.
  (That split is unique: `_history` is not a resource type, so the two tail shapes exclude
  each other — which is why Go's leftmost-first regexp semantics need not be modelled.)
  `net/url.Parse` is modelled for strings over [A-Za-z0-9-._:/+] only; other strings are
  reported as `unmodelled` and the correspondence then only demands "no panic".
-/
import FP.Basic
import FP.Gen.Schema
namespace FP.Model
open FP

abbrev S := List Char

def isAlnum (c : Char) : Bool := c.isAlphanum
def isIdChar (c : Char) : Bool := c.isAlphanum || c == '-' || c == '.'
def isID (s : S) : Bool := 1 ≤ s.length && s.length ≤ 64 && s.all isIdChar
def isType (s : S) : Bool := FP.Gen.Schema.isValidResourceType (String.ofList s)
def isBaseChar (c : Char) : Bool := c.isAlphanum || c == '-' || c == '\\' || c == '.' || c == ':' || c == '%' || c == '$' || c == '_'

/-- split off the last '/'-separated segment: `a/b/c ↦ (some "a/b", "c")`, `c ↦ (none, "c")` -/
def lastSeg : S → Option S × S
  | [] => (none, [])
  | c :: cs =>
    match lastSeg cs with
    | (none, seg) => if c == '/' then (some [], seg) else (none, c :: seg)
    | (some pre, seg) => (some (c :: pre), seg)

/-- the base part of an absolute REST url, given WITH its trailing slash:
    `http(s)://`, a non-empty first segment, then base characters and '/' ending in '/' -/
def isBaseWithSlash (s : S) : Bool :=
  let rest := if "http://".toList.isPrefixOf s then some (s.drop 7)
              else if "https://".toList.isPrefixOf s then some (s.drop 8) else none
  match rest with
  | none => false
  | some r =>
    -- first segment non-empty, then any number of (possibly empty) segments, each closed by '/'
    r.head?.any isBaseChar && r.getLast? == some '/' && r.all (fun c => c == '/' || isBaseChar c)

structure Ident where
  type : S
  id : S
  vid : S          -- "" = unversioned
deriving DecidableEq, Repr

structure Lit where
  fragment : Option S := none
  ident : Option Ident := none
  base : S := []
  nonRest : Option S := none
deriving DecidableEq, Repr

inductive ParseRes where
  | ok (l : Lit)
  | err
  | unmodelled
deriving DecidableEq, Repr

def trimRightSlash (s : S) : S := (s.reverse.dropWhile (· == '/')).reverse

/-- the REST branch: `some` when the regexp matches -/
def restParse (uri : S) : Option Lit :=
  match lastSeg uri with
  | (some p1, s1) =>
    match lastSeg p1 with
    | (p2, s2) =>
      -- tail of four: Type / id / _history / vid
      let four : Option Lit :=
        if s2 == "_history".toList && isID s1 then
          match p2 with
          | some q2 =>
            match lastSeg q2 with
            | (some p3, s3) =>
              match lastSeg p3 with
              | (p4, s4) =>
                if isID s3 && isType s4 then
                  match p4 with
                  | none => some { ident := some ⟨s4, s3, s1⟩ }
                  | some b => if isBaseWithSlash (b ++ ['/']) then some { ident := some ⟨s4, s3, s1⟩, base := trimRightSlash b } else none
                else none
            | (none, _) => none
          | none => none
        else none
      match four with
      | some l => some l
      | none =>
        if isID s1 && isType s2 then
          match p2 with
          | none => some { ident := some ⟨s2, s1, []⟩ }
          | some b => if isBaseWithSlash (b ++ ['/']) then some { ident := some ⟨s2, s1, []⟩, base := trimRightSlash b } else none
        else none
  | (none, _) => none

def urlAlphabet (c : Char) : Bool := c.isAlphanum || c == '-' || c == '.' || c == '_' || c == ':' || c == '/' || c == '+'

/-- `url.Parse` reduced to (scheme ≠ "", opaque ≠ "" ∨ path has a non-slash character), for
    strings over `urlAlphabet`; `none` = parse error or missing scheme -/
def nonRestOk (uri : S) : Bool :=
  -- getScheme
  let rec scheme : S → Nat → Option S
    | [], _ => none
    | c :: cs, i =>
      if c.isAlpha then scheme cs (i + 1)
      else if c.isDigit || c == '+' || c == '-' || c == '.' then (if i == 0 then none else scheme cs (i + 1))
      else if c == ':' then (if i == 0 then none else some cs)
      else none
  match scheme uri 0 with
  | none => false
  | some rest =>
    match rest with
    | [] => false
    | '/' :: '/' :: after =>
      let auth := after.takeWhile (· != '/')
      let path := after.dropWhile (· != '/')
      -- port: after the last ':' of the authority, digits only
      let portOk := match auth.reverse.span (· != ':') with
        | (_, []) => true
        | (revPort, _ :: _) => revPort.all Char.isDigit
      portOk && path.any (· != '/')
    | '/' :: _ => rest.any (· != '/')
    | _ => true        -- opaque

def literalInfoFromURI (uri : S) : ParseRes :=
  match uri with
  | [] => .err
  | '#' :: frag => if frag.isEmpty || isID frag then .ok { fragment := some frag } else .err
  | _ =>
    if uri.contains '#' || uri.contains '|' then .err else
    match restParse uri with
    | some l => .ok l
    | none =>
      if !uri.all urlAlphabet then .unmodelled
      else if nonRestOk uri then .ok { nonRest := some uri } else .err

def identString (i : Ident) : S :=
  if i.vid.isEmpty then i.type ++ ['/'] ++ i.id else i.type ++ ['/'] ++ i.id ++ "/_history/".toList ++ i.vid

/-- `LiteralInfo.URIString` -/
def uriString (l : Lit) : S :=
  match l.fragment, l.ident, l.nonRest with
  | some f, _, _ => '#' :: f
  | none, some i, _ => if l.base.isEmpty then identString i else l.base ++ ['/'] ++ identString i
  | none, none, some u => u
  | none, none, none => []

/-- `reference.Is` on abstracted references: structural equality, else equal identifiers and
    (both without reference, or equal identities) -/
structure RefA where
  whole : Nat                   -- stands for the whole message (proto.Equal compares these)
  identifier : Option Nat
  hasRef : Bool
  identity : Option Ident       -- `IdentityOf`, `none` = error
deriving DecidableEq, Repr

/-- both `IdentityOf` calls succeed and the identities are equal -/
def identEq : Option Ident → Option Ident → Bool
  | some x, some y => x == y
  | _, _ => false

def refIs (a b : RefA) : Bool :=
  if a.whole == b.whole then true
  else if a.identifier != b.identifier then false
  else if a.hasRef || b.hasRef then identEq a.identity b.identity
  else true

/-- canonical `url|version#fragment` (regexp not end-anchored: what follows is ignored) -/
structure Canon where
  url : S
  version : S
  fragment : S
deriving DecidableEq, Repr

def isCanonChar (c : Char) : Bool := ('A' ≤ c && c ≤ 'z') || c.isDigit || c == '-' || c == '_' || c == '.'

def canonParse (s : S) : Option Canon :=
  let url := s.takeWhile (fun c => c != '|' && c != '#')
  if url.isEmpty then none else
  let rest := s.dropWhile (fun c => c != '|' && c != '#')
  let (version, rest2) := match rest with
    | '|' :: r => let v := r.takeWhile isCanonChar; if v.isEmpty then ([], rest) else (v, r.dropWhile isCanonChar)
    | _ => ([], rest)
  let fragment := match rest2 with
    | '#' :: r => (r.takeWhile isCanonChar).take 64
    | _ => []
  some ⟨url, version, fragment⟩

def canonFormat (c : Canon) : S :=
  c.url ++ (if c.version.isEmpty then [] else '|' :: c.version) ++ (if c.fragment.isEmpty then [] else '#' :: c.fragment)

end FP.Model
