/-
  FP.Model.LayoutPrec — the precision a layout's own text implies (shared by C09 and C13).
-/
import FP.Model.Text
namespace FP.Model.Text

/-- the precision a layout's text implies: the finest component it writes
    (0 year … 5 second, fractions count as seconds; for a Time 0 hour … 2 second) -/
def impliedPrecision (l : List Elem) : Nat :=
  if l.any (fun e => e == .second2 || (match e with | .frac0 _ => true | _ => false)) then 5
  else if l.contains .minute2 then 4
  else if l.contains .hour then 3
  else if l.contains .day2 then 2
  else if l.contains .month2 then 1
  else 0

end FP.Model.Text
