/-
  FP.Model.Conv — the conversion functions of funcs/impl/conversion.go (toBoolean … toQuantity and
  their convertsTo… twins) on a single item, after `system.From`.  Temporal values are wall-clock
  readings with their Go layout string; text is produced and read with FP.Model.Text.
  The layout lists and the Date→DateTime layout map are regenerated from the source (FP.Gen.Layouts).
-/
import FP.Basic
import FP.Model.Text
import FP.Gen.Layouts
namespace FP.Model.Conv
open FP FP.Model FP.Model.Text FP.Gen.Layouts

inductive CV where
  | bool (b : Bool)
  | int (i : Int)
  | dec (d : Dec)
  | str (s : S)
  | quantity (d : Dec) (unit : S)
  | date (layout : String) (w : Wall)
  | dateTime (layout : String) (w : Wall)
  | time (layout : String) (w : Wall)
  | complex                      -- anything `system.From` rejects (a non-primitive element)
deriving DecidableEq, Repr

inductive Ty where
  | boolean | integer | decimal | string | date | dateTime | time | quantity | none
deriving DecidableEq, Repr

def CV.ty : CV → Ty
  | .bool _ => .boolean | .int _ => .integer | .dec _ => .decimal | .str _ => .string
  | .quantity _ _ => .quantity | .date _ _ => .date | .dateTime _ _ => .dateTime | .time _ _ => .time
  | .complex => .none

def trimPrefix (p s : S) : S := if p.isPrefixOf s then s.drop p.length else s

def layoutsOf (ls : List String) : List (List Elem) := ls.map fun l => goLayout l.toList

/-- `system.ParseDate` -/
def parseDate (s : S) : Option CV :=
  match parseFirst (layoutsOf parseDateLayouts) (trimPrefix parseDateLayoutsPrefix.toList s) with
  | some (i, w) => some (.date (parseDateLayouts.getD i "") w)
  | none => none

/-- a fraction read after the seconds under a layout without one (`time.Parse` accepts it)
    gives the value the millisecond sibling of the layout -/
def widenLayout (l : String) (w : Wall) : String :=
  if w.nanos = 0 then l
  else if l == "2006-01-02T15:04:05Z07:00" then "2006-01-02T15:04:05.000Z07:00"
  else if l == "2006-01-02T15:04:05" then "2006-01-02T15:04:05.000"
  else if l == "15:04:05" then "15:04:05.000"
  else l

/-- `system.ParseDateTime` (a zero offset is normalised to UTC, any other kept as a fixed zone:
    both are "offset in seconds" here) -/
def offsetInRange (w : Wall) : Bool := decide (-86400 < w.offset) && decide (w.offset < 86400)

def parseDateTime (s : S) : Option CV :=
  match parseFirstOk offsetInRange (layoutsOf parseDateTimeLayouts) (trimPrefix parseDateTimeLayoutsPrefix.toList s) with
  | some (i, w) => some (.dateTime (widenLayout (parseDateTimeLayouts.getD i "") w) w)
  | none => none

/-- `system.ParseTime` -/
def parseTime (s : S) : Option CV :=
  match parseFirst (layoutsOf parseTimeLayouts) (trimPrefix parseTimeLayoutsPrefix.toList s) with
  | some (i, w) => some (.time (widenLayout (parseTimeLayouts.getD i "") w) w)
  | none => none

/-- `fractionLayout`: the ".000" of a millisecond layout is widened when the value carries finer digits -/
def fractionLayout (l : List Elem) (w : Wall) : List Elem :=
  if w.nanos % 1000000 = 0 then l
  else l.map fun e => match e with
    | .frac0 3 => if w.nanos % 1000 = 0 then .frac0 6 else .frac0 9
    | e => e

def formatT (layout : String) (w : Wall) : S := let l := goLayout layout.toList; format (fractionLayout l w) w

def renderQuantity (d : Dec) (u : S) : S := if u.isEmpty then renderDec d else renderDec d ++ ' ' :: u

/-- the strings convertible to a Decimal: `^(\+|-)?\d+(\.\d+)?$` -/
def matchesDecimal (s : S) : Bool :=
  let r0 := match s with | '+' :: r => r | '-' :: r => r | r => r
  let ds := r0.takeWhile isDigit
  if ds.isEmpty then false else
  match r0.drop ds.length with
  | [] => true
  | '.' :: r => !r.isEmpty && r.all isDigit
  | _ => false

/-- `ToString` -/
def toStringV : CV → Res (Option CV)
  | .str s => .ok (some (.str s))
  | .int i => .ok (some (.str (renderInt i)))
  | .dec d => .ok (some (.str (renderDec d)))
  | .quantity d u => .ok (some (.str (renderQuantity d u)))
  | .date l w => .ok (some (.str (formatT l w)))
  | .time l w => .ok (some (.str (formatT l w)))
  | .dateTime l w => .ok (some (.str (formatT l w)))
  | .bool b => .ok (some (.str (if b then "true".toList else "false".toList)))
  | .complex => .ok (some (.bool false))      -- pinned by TestToString (known finding)

def toBooleanV : CV → Res (Option CV)
  | .dec d => .ok ((parseBool (renderDec d)).map .bool)
  | .int i => .ok ((parseBool (renderInt i)).map .bool)
  | .str s => .ok ((parseBool s).map .bool)
  | .bool b => .ok (some (.bool b))
  | _ => .ok none

def toIntegerV : CV → Res (Option CV)
  | .int i => .ok (some (.int i))
  | .str s => match parseIntGo s 32 with
    | some i => .ok (some (.int i))
    | none => .err "parse"                      -- pinned by TestToInteger (known finding)
  | .bool b => .ok (some (.int (if b then 1 else 0)))
  | _ => .ok none

def toDecimalV : CV → Res (Option CV)
  | .dec d => .ok (some (.dec d))
  | .int i => .ok ((parseDecGo (renderInt i)).map .dec)
  | .str s => if matchesDecimal s then .ok ((parseDecGo s).map .dec) else .ok none
  | .bool b => .ok (some (.dec (if b then ⟨10, -1⟩ else ⟨0, -1⟩)))
  | _ => .ok none

def toDateV : CV → Res (Option CV)
  | .date l w => .ok (some (.date l w))
  | .dateTime l w =>
    let s := formatT l w
    let d := match indexWhere (· == 'T') s with | some i => s.take i | none => s
    .ok (parseDate d)
  | .str s => .ok (parseDate s)
  | _ => .ok none

def toDateTimeV : CV → Res (Option CV)
  | .date l w => .ok (some (.dateTime (((dateToDateTime.find? (fun p => p.1 == l)).map (·.2)).getD "") w))
  | .dateTime l w => .ok (some (.dateTime l w))
  | .str s => .ok (parseDateTime s)
  | _ => .ok none

def toTimeV : CV → Res (Option CV)
  | .time l w => .ok (some (.time l w))
  | .str s => .ok (parseTime s)
  | _ => .ok none

def unitOne : S := ['1']

/-- `ToQuantity` without a unit argument -/
def toQuantityV : CV → Res (Option CV)
  | .int i => .ok (some (.quantity ⟨i, 0⟩ unitOne))
  | .dec d => .ok ((parseDecGo (renderDec d)).map fun d' => .quantity d' unitOne)
  | .quantity d u => .ok (some (.quantity d u))
  | .str s =>
    match matchQuantity s with
    | none => .ok none
    | some (value, unit, word) =>
      -- strings.SplitN(s, " ", 2)
      let (num, rest) : S × Option S := match indexWhere (· == ' ') s with
        | some i => (s.take i, some (s.drop (i + 1)))
        | none => (value, none)
      let u0 : S := match rest with
        | some r => ((r.dropWhile (· == '\'')).reverse.dropWhile (· == '\'')).reverse     -- strings.Trim(res[1], "'")
        | none => if !unit.isEmpty then unit else if !word.isEmpty then word else unitOne
      let u := if !unit.isEmpty then unit else u0
      .ok ((parseDecGo num).map fun d => .quantity d u)
  | .bool b => .ok (some (.quantity (if b then ⟨10, -1⟩ else ⟨0, -1⟩) unitOne))
  | _ => .ok none

def convTo : Ty → CV → Res (Option CV)
  | .boolean => toBooleanV | .integer => toIntegerV | .decimal => toDecimalV | .string => toStringV
  | .date => toDateV | .dateTime => toDateTimeV | .time => toTimeV | .quantity => toQuantityV
  | .none => fun _ => .ok none

/-- `ConvertsToT`: false when the conversion is empty or fails; ConvertsToString additionally
    maps the Boolean(false) that ToString yields for complex input to false -/
def convertsTo (t : Ty) (x : CV) : Bool :=
  match convTo t x with
  | .ok (some v) => if t == .string then v != .bool false else true
  | _ => false

/-- the FHIRPath conversion table (https://hl7.org/fhirpath/N1/#conversion): from → to -/
def tableAllows : Ty → Ty → Bool
  | .boolean, t => t == .boolean || t == .integer || t == .decimal || t == .string || t == .quantity
  | .integer, t => t == .boolean || t == .integer || t == .decimal || t == .string || t == .quantity
  | .decimal, t => t == .boolean || t == .decimal || t == .string || t == .quantity
  | .string, _ => true
  | .quantity, t => t == .quantity || t == .string
  | .date, t => t == .date || t == .dateTime || t == .string
  | .dateTime, t => t == .date || t == .dateTime || t == .string
  | .time, t => t == .time || t == .string
  | .none, _ => false

end FP.Model.Conv
