/-
  FP.Model.Options — hand model of option handling:
  `opts.ApplyOptions` (internal/opts/opts.go:52: every option applied in order, errors joined),
  `evalopts.EnvVariable` + `validateType` (evalopts.go:45,61), `expr.InitializeContext`
  (context.go:39: map pre-seeded with `context` and `ucum`), `ExternalConstantExpression`
  (expressions.go:757), `funcs.ToFunction` / `validateFunc` (function.go:38,75),
  `FunctionTable.Register` (function_table.go:13) and `Expression.Evaluate` (fhirpath.go:81).
-/
import FP.Basic
namespace FP.Model
open FP

/-- shape of a value offered as an environment variable -/
inductive VShape where
  | sys (id : Nat)            -- a System value
  | elem (id : Nat)           -- a FHIR element / resource
  | coll (items : List VShape)
  | bad                       -- anything else (Go int, nil, string, struct, …)
deriving Repr

/-- `validateType`: a System value, a FHIR element, or a collection whose items are such values —
    collections do not nest -/
def validShape : VShape → Bool
  | .sys _ => true
  | .elem _ => true
  | .bad => false
  | .coll items => validItems items
where
  validItems : List VShape → Bool
    | [] => true
    | .sys _ :: xs => validItems xs
    | .elem _ :: xs => validItems xs
    | _ :: _ => false

structure EnvOpt where
  name : String
  value : VShape
deriving Repr

inductive OptErr where | unsupportedType | existingConstant
deriving DecidableEq, Repr

abbrev EnvMap := List (String × VShape)

def EnvMap.has (m : EnvMap) (n : String) : Bool := m.any (fun p => p.1 == n)
def EnvMap.get (m : EnvMap) (n : String) : Option VShape := (m.find? (fun p => p.1 == n)).map (·.2)

/-- one `EnvVariable` option applied to the context map -/
def applyEnv (m : EnvMap) (o : EnvOpt) : EnvMap × Option OptErr :=
  if !validShape o.value then (m, some .unsupportedType)
  else if m.has o.name then (m, some .existingConstant)
  else (m ++ [(o.name, o.value)], none)

/-- `ApplyOptions`: all options are applied, in order; errors are collected (joined) -/
def applyAll (m : EnvMap) : List EnvOpt → EnvMap × List OptErr
  | [] => (m, [])
  | o :: os =>
    let r := applyEnv m o
    let rest := applyAll r.1 os
    (rest.1, (match r.2 with | some e => [e] | none => []) ++ rest.2)

/-- `InitializeContext(input)`: `context` is the input collection, `ucum` the UCUM URL (a System String) -/
def initMap (input : VShape) : EnvMap := [("context", input), ("ucum", .sys 0)]

/-- `Expression.Evaluate`: options first; any error ⇒ nothing is evaluated -/
def evaluateWith {α : Type} (input : VShape) (opts : List EnvOpt) (run : EnvMap → α) : Except (List OptErr) α :=
  let r := applyAll (initMap input) opts
  if r.2.isEmpty then .ok (run r.1) else .error r.2

/-- `ExternalConstantExpression.Evaluate`: a collection is spliced in, anything else is one item -/
def lookupVar (m : EnvMap) (n : String) : Except String (List VShape) :=
  match m.get n with
  | none => .error "constant-not-found"
  | some (.coll items) => .ok items
  | some v => .ok [v]

/-! ### custom functions -/

/-- Go types as far as `validateFunc` / `ToFunction` look at them -/
inductive GoTy where | collection | error | other (name : String)
deriving DecidableEq, Repr

structure Sig where
  isFunc : Bool
  ins : List GoTy
  outs : List GoTy
deriving DecidableEq, Repr

inductive SigErr where | notFunc | missingArgs | invalidParams | invalidReturn
deriving DecidableEq, Repr

/-- `validateFunc` (errors are joined) -/
def validateSig (s : Sig) : List SigErr :=
  if !s.isFunc then [.notFunc] else
  (match s.ins with
   | [] => [.missingArgs]
   | t :: _ => if t == .collection then [] else [.invalidParams]) ++
  (if s.outs == [.collection, .error] then [] else [.invalidReturn])

/-- `ToFunction`: arity = number of parameters after the input collection -/
def sigArity (s : Sig) : Nat := s.ins.length - 1

inductive RegResult where | registered (arity : Nat) | exists | badSig (errs : List SigErr)
deriving DecidableEq, Repr

/-- `FunctionTable.Register(name, fn)` against the set of names already in the table -/
def register (tableNames : List String) (name : String) (s : Sig) : RegResult :=
  if tableNames.contains name then .exists
  else match validateSig s with
    | [] => .registered (sigArity s)
    | errs => .badSig errs

/-- the wrapper built by `ToFunction`, called with evaluated arguments (`none` = argument
    evaluation failed; each evaluated argument is a list of (type, value id) items) -/
def callCustom (s : Sig) (args : List (Option (List (GoTy × Nat)))) (body : List Nat → Except String (List Nat)) :
    Except String (List Nat) :=
  if args.length != sigArity s then .error "arity" else
  go (s.ins.drop 1) args []
where
  go : List GoTy → List (Option (List (GoTy × Nat))) → List Nat → Except String (List Nat)
    | _, [], acc => body acc.reverse
    | [], _ :: _, acc => body acc.reverse
    | t :: ts, a :: as, acc =>
      match a with
      | none => .error "arg-error"
      | some [item] => if item.1 == t || t == .other "any" then go ts as (item.2 :: acc) else .error "invalid-return-type"
      | some _ => .error "invalid-return-type"

end FP.Model
