/-
  FP.Model.Arith — `ArithmeticExpression.Evaluate` (expr/expressions.go:651) on two
  single System values, the `Evaluate{Add,Sub,Mul,Div,FloorDiv,Mod}` dispatch
  (expr/arithmetic.go), `NegationExpression`, and the numeric functions of impl/math.go that
  are exact (abs, ceiling, floor, truncate, round).  Integer primitives come from the
  regenerated `FP.Gen.IntArith`.
-/
import FP.Model.Value
import FP.Gen.IntArith
namespace FP.Model
open FP FP.Go

inductive ArithOp where | add | sub | mul | div | floorDiv | mod
deriving DecidableEq, Repr

/-- result of one `Evaluate*` call: a value, a named error, or a trap -/
def liftInt (r : G (Except String Int)) : Res Val :=
  match r with
  | none => .panic
  | some (.ok v) => .ok (.int v)
  | some (.error e) => .err e

def isZeroVal : Val → Bool
  | .int i => i == 0
  | .dec d => d.isZero
  | _ => false

def decFloorDiv (a b : Dec) : Res Val :=
  match Dec.quoRem a b 0 with
  | none => .panic
  | some (q, _) =>
    if Dec.lt q (Dec.ofInt minInt32) || Dec.gt q (Dec.ofInt maxInt32) then .err "ErrIntOverflow"
    else .ok (.int (wrap32 (Dec.intPart q)))

def evalOp (op : ArithOp) (l r : Val) : Res Val :=
  match op with
  | .add =>
    match l, r with
    | .str a, .str b => .ok (.str (a ++ b))
    | .int a, .int b => liftInt (Gen.IntArith.add a b)
    | .dec a, .dec b => .ok (.dec (Dec.add a b))
    | .quantity a u, .quantity b v => if u = v then .ok (.quantity (Dec.add a b) u) else .err "ErrMismatchedUnit"
    | _, _ => .err "ErrTypeMismatch"
  | .sub =>
    match l, r with
    | .int a, .int b => liftInt (Gen.IntArith.sub a b)
    | .dec a, .dec b => .ok (.dec (Dec.sub a b))
    | .quantity a u, .quantity b v => if u = v then .ok (.quantity (Dec.sub a b) u) else .err "ErrMismatchedUnit"
    | _, _ => .err "ErrTypeMismatch"
  | .mul =>
    match l, r with
    | .int a, .int b => liftInt (Gen.IntArith.mul a b)
    | .int _, .quantity _ _ => .err "ErrToBeImplemented"
    | .dec a, .dec b => .ok (.dec (Dec.mul a b))
    | .dec _, .quantity _ _ => .err "ErrToBeImplemented"
    | .quantity _ _, _ => .err "ErrToBeImplemented"
    | _, _ => .err "ErrTypeMismatch"
  | .div =>
    if isZeroVal r then .err "errDivideByZero" else
    match l, r with
    | .int a, .int b => (Res.ofOption (Dec.div (Dec.ofInt a) (Dec.ofInt b))).bind (fun d => .ok (.dec d))
    | .int _, .quantity _ _ => .err "ErrToBeImplemented"
    | .dec a, .dec b => (Res.ofOption (Dec.div a b)).bind (fun d => .ok (.dec d))
    | .dec _, .quantity _ _ => .err "ErrToBeImplemented"
    | .quantity _ _, _ => .err "ErrToBeImplemented"
    | _, _ => .err "ErrTypeMismatch"
  | .floorDiv =>
    if isZeroVal r then .err "errDivideByZero" else
    match l, r with
    | .int a, .int b =>
      if a = minInt32 ∧ b = -1 then .err "ErrIntOverflow"
      else (Res.ofOption (Gen.IntArith.floorDiv a b)).bind (fun v => .ok (.int v))
    | .int _, .quantity _ _ => .err "ErrToBeImplemented"
    | .dec a, .dec b => decFloorDiv a b
    | .dec _, .quantity _ _ => .err "ErrToBeImplemented"
    | .quantity _ _, _ => .err "ErrToBeImplemented"
    | _, _ => .err "ErrTypeMismatch"
  | .mod =>
    if isZeroVal r then .err "errDivideByZero" else
    match l, r with
    | .int a, .int b => (Res.ofOption (Gen.IntArith.mod a b)).bind (fun v => .ok (.int v))
    | .int _, .quantity _ _ => .err "ErrToBeImplemented"
    | .dec a, .dec b => (Res.ofOption (Dec.mod a b)).bind (fun d => .ok (.dec d))
    | .dec _, .quantity _ _ => .err "ErrToBeImplemented"
    | .quantity _ _, _ => .err "ErrToBeImplemented"
    | _, _ => .err "ErrTypeMismatch"

/-- overflow and zero divisors become the empty collection -/
def mapArithErr (x : Res Val) : Res (List Val) :=
  match x with
  | .ok v => .ok [v]
  | .err "ErrIntOverflow" => .ok []
  | .err "errDivideByZero" => .ok []
  | .err e => .err e
  | .panic => .panic

/-- `ArithmeticExpression.Evaluate` on two single items: normalise both ways, apply the
    operator, map overflow and zero divisors to empty. -/
def arithExpr (op : ArithOp) (l r : Val) : Res (List Val) :=
  mapArithErr (evalOp op (normalize l r) (normalize r (normalize l r)))

/-- `NegationExpression.Evaluate` on a single item -/
def negate (v : Val) : Res (List Val) :=
  match v with
  | .int i =>
    match Gen.IntArith.mul i (-1) with
    | none => .panic
    | some (.ok r) => .ok [.int r]
    | some (.error "ErrIntOverflow") => .ok []
    | some (.error _) => .ok [.int 0]   -- unreachable: Mul only raises ErrIntOverflow; mirrors `negated` zero value
  | .dec d => .ok [.dec (Dec.mul d ⟨-1, 0⟩)]
  | .quantity d u => .ok [.quantity (Dec.mul d ⟨-1, 0⟩) u]
  | _ => .err "ErrInvalidType"

def integerOrEmpty (d : Dec) : List Val :=
  if Dec.lt d (Dec.ofInt minInt32) || Dec.gt d (Dec.ofInt maxInt32) then [] else [.int (wrap32 (Dec.intPart d))]

inductive MathFn where | abs | ceiling | floor | truncate | round0
deriving DecidableEq, Repr

/-- abs/ceiling/floor/truncate/round() on a single item (impl/math.go) -/
def mathFn (f : MathFn) (v : Val) : Res (List Val) :=
  match f, v with
  | .abs, .int i => if i = minInt32 then .ok [] else .ok [.int (if i < 0 then -i else i)]
  | .abs, .dec d => .ok [.dec d.abs]
  | .abs, .quantity d u => .ok [.quantity d.abs u]
  | .abs, _ => .err "other"
  | .round0, .int i => .ok [.dec ((Dec.ofInt i).round 0)]
  | .round0, .dec d => .ok [.dec (d.round 0)]
  | .round0, _ => .err "other"
  | .ceiling, .int i => .ok (integerOrEmpty (Dec.ofInt i).ceil)
  | .ceiling, .dec d => .ok (integerOrEmpty d.ceil)
  | .floor, .int i => .ok (integerOrEmpty (Dec.ofInt i).floor)
  | .floor, .dec d => .ok (integerOrEmpty d.floor)
  | .truncate, .int i => .ok (integerOrEmpty ((Dec.ofInt i).truncate 0))
  | .truncate, .dec d => .ok (integerOrEmpty (d.truncate 0))
  | _, .quantity _ _ => .err "not-convertible"
  | _, _ => .err "other"

end FP.Model
