/-
  FP.Model.Isolation — (a) histories of Compile calls over the process-wide function tables:
  `compile.PopulateConfig` = `funcs.Clone()` then the options in order
  (`compopts.AddFunction` → `Register`, `WithExperimentalFuncs` → `AddExperimentalFuncs`);
  whether `Clone` copies is a fact regenerated from table.go (FP.Gen.Sites.cloneCopies).
  (b) a generic interleaving semantics for threads that read shared memory and write only
  thread-local locations.
-/
import FP.Gen.FuncTable
import FP.Gen.Sites
import FP.Model.FuncTable
namespace FP.Model
open FP.Gen.FuncTable

inductive CompileOpt where
  | addFunction (name : String) (goodSig : Bool)
  | experimental
  | permissive
deriving DecidableEq, Repr

/-- names in a table -/
abbrev Names := List String

structure World where
  base : Names          -- the process-wide base table (names only; entries never change, see `register`)
deriving DecidableEq, Repr

/-- one option applied to the table of the Compile call in progress; returns the table and whether the option failed -/
def applyCompileOpt (exp : Names) (t : Names) : CompileOpt → Names × Bool
  | .addFunction n good => if t.contains n then (t, true) else if good then (t ++ [n], false) else (t, true)
  | .experimental => (t ++ exp.filter (fun n => !t.contains n), false)
  | .permissive => (t, false)

def applyCompileOpts (exp : Names) (t : Names) : List CompileOpt → Names × Bool
  | [] => (t, false)
  | o :: os =>
    let r := applyCompileOpt exp t o
    let rest := applyCompileOpts exp r.1 os
    (rest.1, r.2 || rest.2)

/-- one Compile call: with `copies` the working table is a copy (the base is untouched); without,
    the working table IS the base table and registrations leak into it -/
def compileCallW (copies : Bool) (exp : Names) (w : World) (opts : List CompileOpt) : World × Names × Bool :=
  let r := applyCompileOpts exp w.base opts
  (if copies then w else ⟨r.1⟩, r.1, r.2)

/-- a history of Compile calls; returns the final world and what each call saw -/
def history (copies : Bool) (exp : Names) (w : World) : List (List CompileOpt) → World × List (Names × Bool)
  | [] => (w, [])
  | opts :: rest =>
    let r := compileCallW copies exp w opts
    let h := history copies exp r.1 rest
    (h.1, (r.2.1, r.2.2) :: h.2)

/-! ### interleavings -/

inductive Act where
  | read (loc : Nat)
  | write (loc : Nat) (v : Nat)
deriving DecidableEq, Repr

abbrev Mem := Nat → Nat

def Mem.set (m : Mem) (l v : Nat) : Mem := fun x => if x = l then v else m x

/-- run one thread alone; returns the values it read, in order -/
def solo (m : Mem) : List Act → List Nat
  | [] => []
  | .read l :: as => m l :: solo m as
  | .write l v :: as => solo (m.set l v) as

/-- run threads under a schedule (list of thread indexes); each step executes the next action
    of that thread, if any.  Returns the reads as (thread, value). -/
def interleave (m : Mem) (progs : List (List Act)) : List Nat → List (Nat × Nat)
  | [] => []
  | t :: sched =>
    match progs[t]? with
    | some (.read l :: rest) => (t, m l) :: interleave m (progs.set t rest) sched
    | some (.write l v :: rest) => interleave (m.set l v) (progs.set t rest) sched
    | _ => interleave m progs sched

end FP.Model
