/-
  FP.Model.Literal — decoding of FHIRPath string literals (`system.ParseString`): one leading and
  one trailing quote are dropped, then a left-to-right scan replaces backslash escapes.  The escape
  table is regenerated from the source (FP.Gen.Escapes.escapeTable).  The real code scans bytes;
  all characters it inspects are ASCII, so the scan over code points is the same function on valid
  UTF-8 (multi-byte characters pass through unchanged).
-/
import FP.Basic
import FP.Gen.Escapes
namespace FP.Model.Literal
open FP FP.Gen.Escapes

def hexVal? (c : Char) : Option Nat :=
  if 48 ≤ c.toNat ∧ c.toNat ≤ 57 then some (c.toNat - 48)
  else if 97 ≤ c.toNat ∧ c.toNat ≤ 102 then some (c.toNat - 87)
  else if 65 ≤ c.toNat ∧ c.toNat ≤ 70 then some (c.toNat - 55)
  else none

def escapeOf (c : Char) : Option Char :=
  (escapeTable.find? (fun p => p.1 == c.toNat)).map fun p => Char.ofNat p.2

/-- `strings.Builder.WriteRune(rune(code))`: surrogate halves are written as U+FFFD -/
def runeOf (code : Nat) : Char := if 0xD800 ≤ code ∧ code ≤ 0xDFFF then Char.ofNat 0xFFFD else Char.ofNat code

def unicode? (a b c d : Char) : Option Char := do
  let x ← hexVal? a; let y ← hexVal? b; let z ← hexVal? c; let w ← hexVal? d
  pure (runeOf (((x * 16 + y) * 16 + z) * 16 + w))

/-- four hexadecimal digits at the head -/
def takeUnicode : List Char → Option (Char × List Char)
  | h1 :: h2 :: h3 :: h4 :: r' => (unicode? h1 h2 h3 h4).map fun u => (u, r')
  | _ => none

/-- the scan; the fuel bounds the number of steps (the length of the input is enough) -/
def decodeAux : Nat → List Char → List Char
  | 0, _ => []
  | _ + 1, [] => []
  | _ + 1, ['\\'] => []
  | f + 1, '\\' :: c :: r =>
    match escapeOf c with
    | some d => d :: decodeAux f r
    | none =>
      if c == 'u' then
        match takeUnicode r with
        | some (u, r') => u :: decodeAux f r'
        | none => 'u' :: decodeAux f r
      else c :: decodeAux f r
  | f + 1, c :: r => c :: decodeAux f r

def decodeBody (s : List Char) : List Char := decodeAux s.length s

def trimQuotes (s : List Char) : List Char :=
  let s1 := match s with | '\'' :: r => r | _ => s
  match s1.reverse with
  | '\'' :: r => r.reverse
  | _ => s1

/-- `system.ParseString` -/
def parseString (s : List Char) : List Char := decodeBody (trimQuotes s)

/-- the escaping a writer of literals needs: backslash and quote -/
def encode : List Char → List Char
  | [] => []
  | c :: r => if c == '\\' || c == '\'' then '\\' :: c :: encode r else c :: encode r

end FP.Model.Literal
