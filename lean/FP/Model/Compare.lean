/-
  FP.Model.Compare — hand model of equality and ordering:
  `system.TryEqual` (cmp.go:30, with the reflection dispatch TryEqual → Equal → ==), the
  per-type `TryEqual`/`Less` (primitives.go, date.go:96/122, date_time.go:109/139,
  time.go:85/126, quantity.go:54/68), `Collection.TryEqual` (collection.go:39),
  `EqualityExpression` (expressions.go:417) and `ComparisonExpression` (:579).
  Precisions come from the regenerated layout maps (FP.Gen.Layouts).
-/
import FP.Model.Value
import FP.Gen.Layouts
namespace FP.Model
open FP FP.Gen.Layouts

/-- tri-state result of TryEqual: (value, has-value) -/
abbrev TE := Bool × Bool

inductive TKind where | date | dateTime | time
deriving DecidableEq, Repr

def precMap : TKind → List (String × Nat)
  | .date => dateMap | .dateTime => dateTimeMap | .time => timeMap

/-- index of the component at which the loops stop `continue`-ing even when equal
    (`i != int(dtSecond)` / `i != int(second)`); Dates have no such index -/
def secondIdx : TKind → Option Nat
  | .date => none | .dateTime => some 5 | .time => some 2

def prec (k : TKind) (t : Tmp) : Nat := (precOf (precMap k) t.layout).getD 0

/-- the `for i := 0; i <= minPrecision; i++` loop of TryEqual, from index `i`, `n` iterations
    left; `fa i`, `fb i` are the i-th components -/
def eqLoopF (k : TKind) (fa fb : Nat → Int) : Nat → Nat → Option Bool
  | _, 0 => none                       -- fell out of the loop
  | i, n + 1 =>
    if fa i = fb i ∧ secondIdx k ≠ some i then eqLoopF k fa fb (i + 1) n
    else some (match k with | .date => false | _ => decide (fa i = fb i))

/-- the loop of Less -/
def ltLoopF (k : TKind) (fa fb : Nat → Int) : Nat → Nat → Option Bool
  | _, 0 => none
  | i, n + 1 =>
    if fa i = fb i ∧ secondIdx k ≠ some i then ltLoopF k fa fb (i + 1) n
    else some (decide (fa i < fb i))

def nth (l : List Int) (i : Nat) : Int := l.getD i 0
def eqLoop (k : TKind) (a b : List Int) : Nat → Nat → Option Bool := eqLoopF k (nth a) (nth b)
def ltLoop (k : TKind) (a b : List Int) : Nat → Nat → Option Bool := ltLoopF k (nth a) (nth b)

def lexLt : List Int → List Int → Bool
  | [], _ => false
  | _, [] => false
  | x :: xs, y :: ys => decide (x < y) || (x == y && lexLt xs ys)

/-- the component-wise path of TryEqual (layouts differ) -/
def slowEq (k : TKind) (a b : Tmp) : TE :=
  match eqLoop k a.comps b.comps 0 (min (prec k a) (prec k b) + 1) with
  | some r => (r, true)
  | none => if k == .dateTime && prec k a == prec k b then (true, true) else (false, false)

/-- the layout of an hour-precision DateTime that carries an offset: the one layout in which two
    values of equal layout can agree on every component after offset normalisation and still be
    different instants (`T10+00:30` and `T09Z`) -/
def hourOffsetLayout : String := "2006-01-02T15Z07:00"

/-- the instants are compared directly when both values have the same layout and the offset cannot
    move a component below the precision -/
def instPath (a b : Tmp) : Bool := a.layout == b.layout && a.layout != hourOffsetLayout

def tmpTryEqual (k : TKind) (a b : Tmp) : TE :=
  if instPath a b then (a.inst == b.inst, true) else slowEq k a b

/-- the component-wise path of Less (layouts differ) -/
def slowLess (k : TKind) (a b : Tmp) : Except String Bool :=
  match ltLoop k a.comps b.comps 0 (min (prec k a) (prec k b) + 1) with
  | some r => .ok r
  | none => if k == .dateTime && prec k a == prec k b then .ok false else .error "ErrMismatchedPrecision"

/-- `Less`: value, or the named error -/
def tmpLess (k : TKind) (a b : Tmp) : Except String Bool :=
  if instPath a b then .ok (lexLt a.inst b.inst) else slowLess k a b

/-- `system.TryEqual` on already-normalised values -/
def valTryEqual (a b : Val) : TE :=
  match a, b with
  | .bool x, .bool y => (x == y, true)
  | .str x, .str y => (x == y, true)
  | .int x, .int y => (x == y, true)
  | .dec x, .dec y => (Dec.eq x y, true)
  | .date x, .date y => tmpTryEqual .date x y
  | .dateTime x, .dateTime y => tmpTryEqual .dateTime x y
  | .time x, .time y => tmpTryEqual .time x y
  | .quantity x u, .quantity y v => if u != v then (false, false) else (Dec.eq x y, true)
  | _, _ => (false, true)

/-- `TryEqual(lhs, rhs)`: normalise both ways first -/
def tryEqual (a b : Val) : TE := valTryEqual (normalize a b) (normalize b a)

/-- items of a collection as `Collection.TryEqual` sees them -/
inductive Item where
  | prim (v : Val)                 -- `IsPrimitive` and convertible by `system.From`
  | complex (digest : String)      -- any other message; `proto.Equal` is equality of digests
deriving DecidableEq, Repr

/-- `Collection.TryEqual` (lengths already known equal): first non-true pair decides -/
def collPairs : List Item → List Item → TE
  | [], _ => (true, true)
  | _, [] => (true, true)
  | x :: xs, y :: ys =>
    match x, y with
    | .complex d, .complex e => if d == e then collPairs xs ys else (false, true)
    | .prim a, .prim b =>
      let a' := normalize a b
      let b' := normalize b a'
      let r := tryEqual a' b'
      if !r.2 then (false, false) else if !r.1 then (false, true) else collPairs xs ys
    | _, _ => (false, true)

def collTryEqual (c d : List Item) : TE :=
  if c.length != d.length then (false, true) else collPairs c d

/-- `EqualityExpression.Evaluate` on two evaluated operands -/
def eqExpr (not : Bool) (l r : List Item) : List Bool :=
  if l.isEmpty || r.isEmpty then [] else
  let t := collTryEqual l r
  if !t.2 then [] else [if not then !t.1 else t.1]

/-- `Less` per type, on normalised values -/
def valLess (a b : Val) : Except String Bool :=
  match a, b with
  | .bool _, _ => .error "ErrTypeMismatch"
  | .str x, .str y => .ok (lexLtBytes x y)
  | .int x, .int y => .ok (decide (x < y))
  | .dec x, .dec y => .ok (Dec.lt x y)
  | .date x, .date y => tmpLess .date x y
  | .dateTime x, .dateTime y => tmpLess .dateTime x y
  | .time x, .time y => tmpLess .time x y
  | .quantity x u, .quantity y v => if u != v then .error "ErrMismatchedUnit" else .ok (Dec.lt x y)
  | _, _ => .error "ErrTypeMismatch"
where
  lexLtBytes : List UInt8 → List UInt8 → Bool
    | [], [] => false
    | [], _ :: _ => true
    | _ :: _, [] => false
    | x :: xs, y :: ys => decide (x < y) || (x == y && lexLtBytes xs ys)

inductive CmpOp where | lt | gt | le | ge
deriving DecidableEq, Repr

/-- both `Less` calls of `ComparisonExpression.Evaluate`: `none` = empty result -/
def cmpCore (l r : List (Option Val)) : Res (Option (Bool × Bool)) :=
  if l.isEmpty || r.isEmpty then .ok none else
  match l, r with
  | [some a], [some b] =>
    let a' := normalize a b
    let b' := normalize b a'
    match valLess a' b' with
    | .error "ErrMismatchedPrecision" => .ok none
    | .error "ErrMismatchedUnit" => .ok none
    | .error e => .err e
    | .ok lt =>
      match valLess b' a' with
      | .error "ErrMismatchedPrecision" => .ok none
      | .error e => .err e
      | .ok gt => .ok (some (lt, gt))
  | [none], [_] => .err "ErrInvalidType"
  | [_], [none] => .err "ErrInvalidType"
  | _, _ => .err "not-singleton"

def pick (op : CmpOp) (lt gt : Bool) : Bool :=
  match op with | .lt => lt | .gt => gt | .le => !gt | .ge => !lt

/-- `ComparisonExpression.Evaluate` on two evaluated operands (items already through `From`;
    `none` = an item `From` rejects) -/
def cmpExpr (op : CmpOp) (l r : List (Option Val)) : Res (List Bool) :=
  match cmpCore l r with
  | .ok none => .ok []
  | .ok (some (lt, gt)) => .ok [pick op lt gt]
  | .err e => .err e
  | .panic => .panic

end FP.Model
