/-
  FP.Model.Dec — model of the parts of shopspring/decimal v1.4.0 that fhirpath-go uses
  (read in the vendored source; behaviour is part of the trusted base and is exercised by the
  correspondence streams).  A decimal is `coeff · 10^exp` exactly as the library stores it.
  `big.Int.Quo/QuoRem` truncate toward zero (`Int.tdiv/tmod`); `big.Int.Div/DivMod` are
  Euclidean (`Int.ediv/emod`, written `/` and `%` in Lean).
-/
import FP.Go
namespace FP.Model
open FP.Go

structure Dec where
  coeff : Int
  exp : Int
deriving DecidableEq, Repr

namespace Dec

def pow10 (n : Int) : Int := 10 ^ n.toNat

/-- `rescale`: change the exponent; lowering it multiplies exactly, raising it truncates
    toward zero (`big.Int.Quo`). -/
def rescale (d : Dec) (e : Int) : Dec :=
  if d.exp = e then d
  else if e > d.exp then ⟨Int.tdiv d.coeff (pow10 (e - d.exp)), e⟩
  else ⟨d.coeff * pow10 (d.exp - e), e⟩

def rescalePair (a b : Dec) : Dec × Dec :=
  if a.exp < b.exp then (a, b.rescale a.exp)
  else if a.exp > b.exp then (a.rescale b.exp, b)
  else (a, b)

def add (a b : Dec) : Dec := let p := rescalePair a b; ⟨p.1.coeff + p.2.coeff, p.1.exp⟩
def sub (a b : Dec) : Dec := let p := rescalePair a b; ⟨p.1.coeff - p.2.coeff, p.1.exp⟩
def mul (a b : Dec) : Dec := ⟨a.coeff * b.coeff, a.exp + b.exp⟩
def neg (a : Dec) : Dec := ⟨-a.coeff, a.exp⟩
def abs (a : Dec) : Dec := ⟨if a.coeff < 0 then -a.coeff else a.coeff, a.exp⟩
def ofInt (i : Int) : Dec := ⟨i, 0⟩
def isZero (a : Dec) : Bool := a.coeff == 0
def sign (a : Dec) : Int := if a.coeff < 0 then -1 else if a.coeff = 0 then 0 else 1

/-- `Cmp`: -1, 0, 1 -/
def cmp (a b : Dec) : Int :=
  let p := rescalePair a b
  if p.1.coeff < p.2.coeff then -1 else if p.1.coeff = p.2.coeff then 0 else 1
def eq (a b : Dec) : Bool := cmp a b == 0
def lt (a b : Dec) : Bool := cmp a b == -1
def gt (a b : Dec) : Bool := cmp a b == 1

/-- `QuoRem(d2, precision)`; the caller guarantees `b ≠ 0` (the library panics otherwise). -/
def quoRem (a b : Dec) (prec : Int) : G (Dec × Dec) :=
  if b.coeff = 0 then none else
  let scale := -prec
  let e := a.exp - b.exp - scale
  let aa := if e < 0 then a.coeff else a.coeff * pow10 e
  let bb := if e < 0 then b.coeff * pow10 (-e) else b.coeff
  let scalerest := if e < 0 then a.exp else scale + b.exp
  some (⟨Int.tdiv aa bb, scale⟩, ⟨Int.tmod aa bb, scalerest⟩)

/-- `DivRound(d2, precision)`: quotient rounded half away from zero at `precision` places -/
def divRound (a b : Dec) (prec : Int) : G Dec :=
  (quoRem a b prec).map fun (q, r) =>
    let r2 : Dec := ⟨2 * (if r.coeff < 0 then -r.coeff else r.coeff), r.exp + prec⟩
    if cmp r2 (abs b) < 0 then q
    else if sign a * sign b < 0 then sub q ⟨1, -prec⟩
    else add q ⟨1, -prec⟩

/-- `Div` = `DivRound(·, DivisionPrecision = 16)` -/
def div (a b : Dec) : G Dec := divRound a b 16

/-- `Mod` = remainder of `QuoRem(·, 0)` -/
def mod (a b : Dec) : G Dec := (quoRem a b 0).map (·.2)

/-- `IntPart`: rescale to exponent 0, then `big.Int.Int64()` (wraps modulo 2^64) -/
def intPartBig (a : Dec) : Int := (a.rescale 0).coeff
def intPart (a : Dec) : Int := wrap64 (intPartBig a)

/-- `Round(places)`: half away from zero -/
def round (d : Dec) (places : Int) : Dec :=
  if d.exp = -places then d else
  let r := d.rescale (-places - 1)
  let v := if r.coeff < 0 then r.coeff - 5 else r.coeff + 5
  let q := v / 10       -- DivMod: Euclidean
  let m := v % 10
  ⟨if q < 0 && m != 0 then q + 1 else q, r.exp + 1⟩

def floor (d : Dec) : Dec := if d.exp ≥ 0 then d else ⟨d.coeff / pow10 (-d.exp), 0⟩
def ceil (d : Dec) : Dec :=
  if d.exp ≥ 0 then d else
  let p := pow10 (-d.exp)
  ⟨if d.coeff % p != 0 then d.coeff / p + 1 else d.coeff / p, 0⟩
def truncate (d : Dec) (precision : Int) : Dec :=
  if precision ≥ 0 && -precision > d.exp then d.rescale (-precision) else d

/-- canonical numeric form: trailing zeros of the coefficient moved into the exponent -/
partial def normalize (d : Dec) : Dec :=
  if d.coeff = 0 then ⟨0, 0⟩
  else if d.coeff % 10 = 0 then normalize ⟨d.coeff / 10, d.exp + 1⟩ else d

end Dec
end FP.Model
