/-
  FP.Model.Printer — rendering of expression trees as token lists, with the parentheses the
  precedence levels and left associativity require (`printAt`) and with every operator
  application parenthesised (`printFull`).  Levels are positions in the regenerated level table:
  0 … N-1 the binary/type levels (loosest first), N polarity, N+1 postfix, N+2 terms.
-/
import FP.Model.Syntax
namespace FP.Model.Syntax

def nLevels : Nat := binLevels.length

/-- position of the (first) level with this operator; `isTyp` selects the type level -/
def levelIdx (o : String) (isTyp : Bool) : Nat :=
  (binLevels.findIdx? fun l => l.2 == isTyp && l.1.contains o).getD (nLevels + 2)

def levelOf : Ex → Nat
  | .bin o _ _ => levelIdx o false
  | .typ o _ _ => levelIdx o true
  | .pol _ _ => nLevels
  | .dot _ _ => nLevels + 1
  | .idx _ _ => nLevels + 1
  | _ => nLevels + 2

def qualToks : List String → List Tok
  | [] => []
  | [n] => [.ident n]
  | n :: r => .ident n :: .kw "." :: qualToks r

def paren (need : Bool) (ts : List Tok) : List Tok := if need then .kw "(" :: ts ++ [.kw ")"] else ts

mutual
  /-- tokens of `t` in a context that requires level ≥ c -/
  def printAt : Nat → Ex → List Tok
    | c, .bin o l r => paren (levelIdx o false < c) (printAt (levelIdx o false) l ++ .kw o :: printAt (levelIdx o false + 1) r)
    | c, .typ o e q => paren (levelIdx o true < c) (printAt (levelIdx o true) e ++ .kw o :: qualToks q)
    | c, .pol s e => paren (nLevels < c) (.kw s :: printAt nLevels e)
    | c, .dot e i => paren (nLevels + 1 < c) (printAt (nLevels + 1) e ++ .kw "." :: printAt (nLevels + 2) i)
    | c, .idx e i => paren (nLevels + 1 < c) (printAt (nLevels + 1) e ++ .kw "[" :: printAt 0 i ++ [.kw "]"])
    | _, .lit (.kw "{}") => [.kw "{", .kw "}"]
    | _, .lit t => [t]
    | _, .qty n u => [.num n, u]
    | _, .ext n => [.kw "%", .ident n]
    | _, .special s => [.kw s]
    | _, .member n => [.ident n]
    | _, .call n as => .ident n :: .kw "(" :: printArgs as ++ [.kw ")"]
    | _, .argNil => []
    | _, .argCons e r => printAt 0 e ++ printArgs r
  def printArgs : Ex → List Tok
    | .argNil => []
    | .argCons e .argNil => printAt 0 e
    | .argCons e r => printAt 0 e ++ .kw "," :: printArgs r
    | e => printAt 0 e
end

mutual
  /-- tokens of `t` with every operator application (binary, type, polarity, invocation, indexer)
      in its own parentheses; function arguments are rendered the same way -/
  def printFull : Ex → List Tok
    | .bin o l r => .kw "(" :: (printFull l ++ .kw o :: printFull r) ++ [.kw ")"]
    | .typ o e q => .kw "(" :: (printFull e ++ .kw o :: qualToks q) ++ [.kw ")"]
    | .pol s e => .kw "(" :: (.kw s :: printFull e) ++ [.kw ")"]
    | .dot e i => .kw "(" :: (printFull e ++ .kw "." :: printFull i) ++ [.kw ")"]
    | .idx e i => .kw "(" :: (printFull e ++ .kw "[" :: printFull i ++ [.kw "]"]) ++ [.kw ")"]
    | .call n as => .ident n :: .kw "(" :: printFullArgs as ++ [.kw ")"]
    | .argNil => []
    | .argCons e r => printFull e ++ printFullArgs r
    | .lit (.kw "{}") => [.kw "{", .kw "}"]
    | .lit t => [t]
    | .qty n u => [.num n, u]
    | .ext n => [.kw "%", .ident n]
    | .special s => [.kw s]
    | .member n => [.ident n]
  def printFullArgs : Ex → List Tok
    | .argNil => []
    | .argCons e .argNil => printFull e
    | .argCons e r => printFull e ++ .kw "," :: printFullArgs r
    | e => printFull e
end

/-- nesting of parentheses / indexers / arguments the parser has to enter -/
def depth : Ex → Nat
  | .bin _ l r => max (depth l) (depth r) + 1
  | .typ _ e _ => depth e + 1
  | .pol _ e => depth e + 1
  | .dot e i => max (depth e) (depth i) + 1
  | .idx e i => max (depth e) (depth i) + 1
  | .call _ as => depth as + 1
  | .argCons e r => max (depth e) (depth r) + 1
  | _ => 1

end FP.Model.Syntax
