/-
  FP.Model.Path — a dotted path as the composition of navigation steps.  The evaluator applies
  one `FieldExpression` per name to the whole collection produced so far; each application visits
  the items in order, concatenates what they yield and stops at the first error.  The model is
  generic in the per-item step, so that what is proved about one step (FP.Model.Navigate) lifts to
  whole paths; `treeStep` instantiates it with `fieldStep` over a resource given as a map from
  element identities to their descriptions.
-/
import FP.Model.Navigate
namespace FP.Model
open FP

/-- one step over a collection: in order, concatenated, first error wins -/
def stepAll {α : Type} (f : α → Res (List α)) : List α → Res (List α)
  | [] => .ok []
  | x :: rest =>
    match f x with
    | .ok out => (match stepAll f rest with
      | .ok more => .ok (out ++ more)
      | e => e)
    | .err e => .err e
    | .panic => .panic

/-- a path: the steps applied one after the other to the whole collection -/
def evalPath {α : Type} : List (α → Res (List α)) → List α → Res (List α)
  | [], c => .ok c
  | f :: fs, c =>
    match stepAll f c with
    | .ok c' => evalPath fs c'
    | .err e => .err e
    | .panic => .panic

/-- the resource: element identity ↦ description -/
abbrev Tree := Nat → Option MsgDesc

/-- the navigation step on an item of a collection: an element of the tree is looked up and
    stepped into (a synthesised reference string is a FHIR string element like any other); a System
    value is not a message, and a name applied to it is an error (non-permissive mode) -/
def treeStep (t : Tree) (name snake : String) : Out → Res (List Out)
  | .node id | .synthRef id => (match t id with
    | some m => fieldStep name snake id m
    | none => .err "unknown-node")
  | .prim _ | .synthValue => .err "not-an-element"

end FP.Model
