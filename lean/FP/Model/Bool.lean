/-
  FP.Model.Bool — hand model of `Collection.ToSingletonBoolean`, `Collection.ToBool`
  (system/collection.go:80,107), `BooleanExpression.Evaluate` (expr/expressions.go:536) and
  `impl.Not`, on top of the *regenerated* tables `FP.Gen.Bool3`.
  An operand item is abstracted to what the code inspects: a Boolean (System Boolean or
  FHIR boolean element, both mapped by `system.From`) or anything else.
-/
import FP.Basic
import FP.Gen.Bool3
namespace FP.Model
open FP FP.Go

inductive BItem where
  | bool (b : Bool)
  | other
deriving DecidableEq, Repr

inductive BoolOp where | and | or | xor | implies
deriving DecidableEq, Repr

/-- `Collection.ToSingletonBoolean` -/
def toSingletonBoolean (c : List BItem) : Res (List Bool) :=
  match c with
  | [] => .ok []
  | [.bool b] => .ok [b]
  | [.other] => .ok [true]
  | _ :: _ :: _ => .err "not-singleton"

/-- `Collection.ToBool` (used by where/all/iif criteria and EvaluateAsBool) -/
def toBool (c : List BItem) : Res Bool :=
  match c with
  | [] => .ok false
  | [.bool b] => .ok b
  | [.other] => .ok true
  | _ :: _ :: _ => .err "not-singleton"

def table (op : BoolOp) : List Bool → List Bool → G (List Bool) :=
  match op with
  | .and => Gen.Bool3.evaluateAnd
  | .or => Gen.Bool3.evaluateOr
  | .xor => Gen.Bool3.evaluateXor
  | .implies => Gen.Bool3.evaluateImplies

/-- `BooleanExpression.Evaluate` after both operands have been evaluated -/
def boolExpr (op : BoolOp) (l r : List BItem) : Res (List Bool) := do
  let lb ← toSingletonBoolean l
  let rb ← toSingletonBoolean r
  Res.ofOption (table op lb rb)

/-- `impl.Not`: singleton Boolean evaluation, then negation -/
def notFn (c : List BItem) : Res (List Bool) := do
  let b ← toSingletonBoolean c
  pure (b.map (!·))

end FP.Model
