/-
  FP.Model.Eval — the ASSEMBLED evaluator: source text → tokens → tree (FP.Model.Syntax) →
  compiled expression (the visitor, parser/visitor.go) → evaluation (expr/expressions.go and the
  function implementations of funcs/impl), over System values.

  The per-feature models (Bool, Arith, Compare, Coll, Strings, Ops) are the single-step semantics;
  this file is the glue the repository's `Evaluate` methods and `FHIRPathVisitor` implement:
  which operand is evaluated on which input, where `$this` points, how a criterion is applied per
  item, how empties / singletons / errors flow through a whole expression, how the visitor's
  `visitedRoot` flag is threaded (left operand and arguments: same visitor; right operands: a
  clone), and which constructs Compile rejects.

  Values are the System values the arithmetic / logic core knows (`Val`): Boolean, Integer,
  Decimal, String, Quantity, and — through FP.Model.Temporal — Date, DateTime and Time (literals,
  comparison, equality, calendar arithmetic).  Resources are not represented here (navigation has its own model,
  FP.Model.Navigate / Path); a member name therefore meets only System items: a root type name
  filters them away, any other name is ErrInvalidField.
  Constructs outside the modelled fragment give `unmodelled`, never a guessed value.
-/
import FP.Model.Ops
import FP.Model.Bool
import FP.Model.Strings
import FP.Model.Syntax
import FP.Model.Literal
import FP.Model.Text
import FP.Model.FuncTable
import FP.Model.Types
import FP.Model.Conv
import FP.Model.Temporal
import FP.Gen.Schema
namespace FP.Model.Eval
open FP FP.Go FP.Model FP.Model.Syntax

/-! ### compiled expressions (what the visitor builds) -/

inductive E where
  | lit (v : Val)                        -- LiteralExpression
  | null                                 -- LiteralExpression{} (`{}`)
  | this                                 -- IdentityExpression
  | ext (name : String)                  -- ExternalConstantExpression
  | typeRoot (name : String)             -- TypeExpression
  | field (name : String)                -- FieldExpression
  | seq (a b : E)                        -- ExpressionSequence [a, b]
  | index (i : E)                        -- IndexExpression
  | neg (e : E)                          -- NegationExpression
  | bool (op : BoolOp) (l r : E)
  | eq (not : Bool) (l r : E)
  | cmp (op : CmpOp) (l r : E)
  | arith (op : ArithOp) (l r : E)
  | concat (l r : E)
  | isT (e : E) (t : FP.Gen.TypeParent.TypeSpecifier)   -- IsExpression
  | asT (e : E) (t : FP.Gen.TypeParent.TypeSpecifier)   -- AsExpression
  | fn (name : String) (args : E)        -- FunctionExpression; args: argNil / argCons chain
  | argNil
  | argCons (e : E) (rest : E)
deriving DecidableEq, Repr

/-- outcome of Compile on a tree -/
inductive CRes (α : Type) where
  | ok (a : α)
  | error                                -- Compile returns an error
  | unmodelled                           -- outside the modelled fragment
deriving DecidableEq, Repr

def CRes.bind {α β : Type} (r : CRes α) (f : α → CRes β) : CRes β :=
  match r with
  | .ok a => f a
  | .error => .error
  | .unmodelled => .unmodelled
instance : Monad CRes where
  pure := .ok
  bind := CRes.bind

/-! ### literals -/

def utf8 (s : List Char) : List UInt8 := (String.ofList s).toUTF8.toList

/-- `VisitNumberLiteral`: a NUMBER with a '.' is a Decimal (`decimal.NewFromString`), otherwise an
    Integer (`strconv.ParseInt(_, 10, 32)`; out of range is a Compile error) -/
def compileNumber (n : String) : CRes E :=
  if n.toList.contains '.' then
    match Text.parseDecGo n.toList with
    | some d => .ok (.lit (.dec d))
    | none => .error
  else
    match Text.parseIntGo n.toList 32 with
    | some i => .ok (.lit (.int i))
    | none => .error

def compileLit : Tok → CRes E
  | .kw "{}" => .ok .null
  | .kw "true" => .ok (.lit (.bool true))
  | .kw "false" => .ok (.lit (.bool false))
  | .str s => .ok (.lit (.str (utf8 (Literal.decodeBody s.toList))))
  | .num n => compileNumber n
  | .temporal t =>                        -- VisitDateLiteral / VisitDateTimeLiteral / VisitTimeLiteral
    (match Temporal.literal t with
     | some v => .ok (.lit v)
     | none => .error)
  | _ => .unmodelled

/-- `VisitQuantityLiteral`: `system.ParseQuantity(number, unit)`; the unit is the token text without
    its quotes (a calendar keyword is its own text) -/
def compileQuantity (n : String) (u : Tok) : CRes E :=
  match Text.parseDecGo n.toList, u with
  | none, _ => .error
  | some d, .kw k => .ok (.lit (.quantity d (utf8 k.toList)))
  | some d, .str s => .ok (.lit (.quantity d (utf8 s.toList)))
  | some _, _ => .unmodelled

/-! ### the visitor -/

def boolOp? : String → Option BoolOp
  | "and" => some .and | "or" => some .or | "xor" => some .xor | "implies" => some .implies | _ => none
def cmpOp? : String → Option CmpOp
  | "<" => some .lt | ">" => some .gt | "<=" => some .le | ">=" => some .ge | _ => none
def arithOp? : String → Option ArithOp
  | "+" => some .add | "-" => some .sub | "*" => some .mul | "/" => some .div
  | "div" => some .floorDiv | "mod" => some .mod | _ => none

/-- the functions whose implementation is assembled below -/
def modelledFns : List String :=
  ["empty", "exists", "count", "all", "allTrue", "anyTrue", "allFalse", "anyFalse", "where", "select",
   "first", "last", "tail", "skip", "take", "distinct", "isDistinct", "intersect", "exclude", "not", "iif",
   "length", "startsWith", "endsWith", "contains", "indexOf", "substring", "toChars", "replace",
   "abs", "ceiling", "floor", "truncate",
   "toString", "toInteger", "toDecimal", "toBoolean", "convertsToString", "convertsToInteger", "convertsToDecimal", "convertsToBoolean",
   "toDate", "toDateTime", "toTime", "toQuantity", "convertsToDate", "convertsToDateTime", "convertsToTime", "convertsToQuantity",
   "upper", "lower", "round", "now", "today", "timeOfDay", "join", "power"]

def argCount : Ex → Nat
  | .argCons _ r => argCount r + 1
  | _ => 0

/-- `FHIRPathVisitor` on a tree.  State: `visitedRoot`.  Left operands, polarity / type operands,
    the two sides of '.', and function arguments are visited by the visitor itself (the flag is
    carried along, in source order); right operands of binary operators and of the indexer by a
    clone whose flag starts false and is thrown away. -/
def compile (t : List FP.Gen.FuncTable.Entry) : Ex → Bool → CRes (E × Bool)
  | .lit tok, vr => (compileLit tok).bind fun e => .ok (e, vr)
  | .qty n u, vr => (compileQuantity n u).bind fun e => .ok (e, vr)
  | .ext n, vr => .ok (.ext n, vr)
  | .special "$this", vr => .ok (.this, vr)
  | .special _, _ => .error                                  -- $index / $total: errNotSupported
  | .member n, vr =>
    if Gen.Schema.isValidResourceType n && !vr then .ok (.typeRoot n, true) else .ok (.field n, vr)
  | .call n as, vr =>
    match lookup t n with
    | none => .error                                         -- errUnresolvedFunction
    | some ent =>
      (compile t as vr).bind fun (cas, vr') =>
        if argCount as < ent.min || argCount as > ent.max then .error
        else if ent.impl == "unimplemented" then .ok (.fn "unimplemented!" cas, vr')   -- fails when evaluated
        else if modelledFns.contains n then .ok (.fn n cas, vr')
        else .unmodelled
  | .argNil, vr => .ok (.argNil, vr)
  | .argCons e r, vr =>
    (compile t e vr).bind fun (ce, vr1) =>
      (compile t r vr1).bind fun (cr, vr2) => .ok (.argCons ce cr, vr2)
  | .dot e i, vr =>
    (compile t e vr).bind fun (ce, vr1) =>
      (compile t i vr1).bind fun (ci, vr2) => .ok (.seq ce ci, vr2)
  | .idx e i, vr =>
    (compile t e vr).bind fun (ce, vr1) =>
      (compile t i false).bind fun (ci, _) => .ok (.seq ce (.index ci), vr1)
  | .pol o e, vr =>
    (compile t e vr).bind fun (ce, vr1) => .ok (if o == "-" then .neg ce else ce, vr1)
  | .bin o l r, vr =>
    (compile t l vr).bind fun (cl, vr1) =>
      (compile t r false).bind fun (cr, _) =>
        match boolOp? o, cmpOp? o, arithOp? o with
        | some b, _, _ => .ok (.bool b cl cr, vr1)
        | _, some c, _ => .ok (.cmp c cl cr, vr1)
        | _, _, some a => .ok (.arith a cl cr, vr1)
        | _, _, _ =>
          if o == "&" then .ok (.concat cl cr, vr1)
          else if o == "=" then .ok (.eq false cl cr, vr1)
          else if o == "!=" then .ok (.eq true cl cr, vr1)
          else .error                                        -- | in contains ~ !~ : errNotSupported
  | .typ o e parts, vr =>
    -- VisitTypeExpression: the operand (same visitor), then the type specifier (FP.Model.Types.resolveParts,
    -- over the resolution functions translated from reflection/type_specifier.go)
    (compile t e vr).bind fun (ce, vr1) =>
      match resolveParts parts with
      | .ok ts => if o == "is" then .ok (.isT ce ts, vr1) else if o == "as" then .ok (.asT ce ts, vr1) else .error
      | .err _ => .error
      | .panic => .unmodelled

/-! ### evaluation -/

abbrev Env := List (String × List Val)

def toB : Val → BItem
  | .bool b => .bool b
  | _ => .other

def bools (l : List Bool) : List Val := l.map .bool

/-- `system.Equal` -/
def sysEq (a b : Val) : Bool := let t := tryEqual a b; t.1 && t.2

/-- `Collection.ToInt32` on an evaluated argument -/
def toInt32 (c : List Val) : Res Int :=
  match c with
  | [.int i] => .ok i
  | [_] => .err "not-convertible"
  | _ => .err "not-singleton"

/-- `Collection.ToString` -/
def toStr (c : List Val) : Res (List UInt8) :=
  match c with
  | [.str s] => .ok s
  | [_] => .err "not-convertible"
  | _ => .err "not-singleton"

def chars? (b : List UInt8) : Res Str :=
  match String.fromUTF8? (ByteArray.mk b.toArray) with
  | some s => .ok s.toList
  | none => .err "UNMODELLED"                                -- Go strings that are not UTF-8

def strVal (s : Str) : Val := .str (utf8 s)

def mapRes {α β : Type} (f : α → β) : Res α → Res β
  | .ok a => .ok (f a)
  | .err e => .err e
  | .panic => .panic

/-- the guard all string functions start with: more than one input item is an error, none is empty -/
def onString (input : List Val) (k : Str → Res (List Val)) : Res (List Val) :=
  match input with
  | [] => .ok []
  | [_] => (toStr input).bind fun b => (chars? b).bind k
  | _ => .err "arity"

/-- a String argument that must be exactly one item (`startsWith`, `endsWith`, `contains`) -/
def strArg1 (a : List Val) (k : Str → Res (List Val)) : Res (List Val) :=
  match a with
  | [_] => (toStr a).bind fun b => (chars? b).bind k
  | _ => .err "arity"

/-- a String argument where no item gives empty (`indexOf`, `replace`) -/
def strArg01 (a : List Val) (k : Str → Res (List Val)) : Res (List Val) :=
  match a with
  | [] => .ok []
  | [_] => (toStr a).bind fun b => (chars? b).bind k
  | _ => .err "arity"

def intArg1 (a : List Val) (k : Int → Res (List Val)) : Res (List Val) :=
  match a with
  | [_] => (toInt32 a).bind k
  | _ => .err "arity"

def mathOn (f : MathFn) (input : List Val) : Res (List Val) :=
  match input with
  | [] => .ok []
  | [v] => mathFn f v
  | _ => .err "not-singleton"

/-- `strings.ToUpper` / `strings.ToLower` on the ASCII letters; Go maps every other character through the
    Unicode case tables, which are not modelled: a receiver with a character beyond U+007F is `unmodelled`
    (FP.Model.Strings.mapChars with the table supplied by the harness is the per-feature model, C14) -/
def asciiUpper (c : Char) : Char := if 'a' ≤ c ∧ c ≤ 'z' then Char.ofNat (c.toNat - 32) else c
def asciiLower (c : Char) : Char := if 'A' ≤ c ∧ c ≤ 'Z' then Char.ofNat (c.toNat + 32) else c
def isAscii (s : Str) : Bool := s.all fun c => c.toNat < 128

/-- `Upper` / `Lower` (impl/strings.go): several items are an error, none is empty, the item must be a String -/
def caseOn (f : Char → Char) (input : List Val) : Res (List Val) :=
  match input with
  | [] => .ok []
  | [_] => (toStr input).bind fun b => (chars? b).bind fun s =>
      if isAscii s then .ok [strVal (s.map f)] else .err "UNMODELLED"
  | _ => .err "not-singleton"

/-- `Round` on a single item once the precision is known: a Decimal whose exponent already fits is handed
    back as it is, any other Decimal goes through `Round(precision)` (half away from zero); an Integer becomes
    the Decimal of the same value; anything else is an error -/
def roundTo (p : Int) (d : Dec) : Dec := if -d.exp ≤ p then d else d.round p
def roundVal (p : Int) : Val → Res (List Val)
  | .dec d => .ok [.dec (roundTo p d)]
  | .int i => .ok [.dec (Dec.ofInt i)]
  | _ => .err "not-a-number"

/-- the name under which `finish` hands the clock reading to the evaluation: the text
    `ctx.Now.Format("2006-01-02T15:04:05.000Z07:00")` (an input of the model; `time.Format` is trusted).
    The name starts with U+0000, which no environment of the correspondence stream uses. -/
def clockKey : String := "\x00now"

def isClockFn (name : String) : Bool := name == "now" || name == "today" || name == "timeOfDay"

/-- `Now` / `Today` / `TimeOfDay` (impl/utility.go): the clock reading of the Context — read once, when the
    evaluation starts — rendered with milliseconds and its own offset and read back by the literal parsers;
    the input collection is never looked at -/
def clockFn (name : String) (env : Env) : Res (List Val) :=
  match env.find? (fun p => p.1 == clockKey) with
  | some (_, [.str b]) =>
    (chars? b).bind fun t =>
      let text : Str :=
        if name == "now" then '@' :: t
        else if name == "today" then '@' :: t.take 10
        else '@' :: 'T' :: (t.drop 11).take 12
      match Temporal.literal (String.ofList text) with
      | some v => .ok [v]
      | none => .err "clock-not-representable"
  | _ => .err "UNMODELLED"

/-- `Join` (experimental table, impl/strings.go): every item must be a String; the texts are joined as
    `strings.Join` does (Go strings are byte sequences), with the delimiter between them -/
def strBytes? : Val → Option (List UInt8)
  | .str s => some s
  | _ => none
def joinBytes (d : List UInt8) : List (List UInt8) → List UInt8
  | [] => []
  | [x] => x
  | x :: rest => x ++ d ++ joinBytes d rest
def joinOn (d : List UInt8) (input : List Val) : Res (List Val) :=
  match input with
  | [] => .ok []
  | _ =>
    if input.all (fun v => (strBytes? v).isSome) then .ok [.str (joinBytes d (input.filterMap strBytes?))]
    else .err "not-a-string"

/-- `powInt32` (impl/math.go) behind `power()` on two Integers: bases 0, 1, -1 by cases; any other base leaves the
    Integer range after at most 31 multiplications, so a larger exponent is answered without computing the power -/
def powInt (b e : Int) : Option Int :=
  if b = 0 then (if e = 0 then some 1 else some 0)
  else if b = 1 then some 1
  else if b = -1 then (if e % 2 = 0 then some 1 else some (-1))
  else if e > 31 then none
  else let r := b ^ e.toNat; if r > maxInt32 ∨ r < minInt32 then none else some r

/-- `Power` on two Integers: a negative exponent gives the Integer 0 (as the implementation has it), a result
    outside the Integer range gives empty -/
def powVal (b e : Int) : List Val :=
  if e < 0 then [.int 0] else match powInt b e with | some r => [.int r] | none => []

def anyIs (b : Bool) (input : List Val) : Bool := input.any (· == .bool b)

/-- `Name()` of a System value -/
def sysName : Val → String
  | .bool _ => "Boolean" | .int _ => "Integer" | .dec _ => "Decimal" | .str _ => "String"
  | .quantity _ _ => "Quantity" | .date _ => "Date" | .dateTime _ => "DateTime" | .time _ => "Time" | .other t => t

/-- `reflection.TypeOf(item).Is(T)` for a System item -/
def itemIs (v : Val) (t : FP.Gen.TypeParent.TypeSpecifier) : Bool := Model.is (typeOf (.sys (sysName v))) t

def toCV : Val → Option Conv.CV
  | .bool b => some (.bool b)
  | .int i => some (.int i)
  | .dec d => some (.dec d)
  | .str s => (String.fromUTF8? (ByteArray.mk s.toArray)).map fun x => .str x.toList
  | .quantity d u => (String.fromUTF8? (ByteArray.mk u.toArray)).map fun x => .quantity d x.toList
  | .date t => some (.date t.layout (Temporal.wallOfDate t))
  | .dateTime t => some (.dateTime t.layout (Temporal.wallOfDateTime t))
  | .time t => some (.time t.layout (Temporal.wallOfTime t))
  | .other _ => none
def ofCV : Conv.CV → Option Val
  | .bool b => some (.bool b)
  | .int i => some (.int i)
  | .dec d => some (.dec d)
  | .str s => some (.str (utf8 s))
  | .quantity d u => some (.quantity d (utf8 u))
  | .complex => none
  | cv => Temporal.ofCV cv

/-- a conversion function on a collection (impl/conversion.go): empty stays empty, several items are an error -/
def convOn (t : Conv.Ty) (input : List Val) : Res (List Val) :=
  match input with
  | [] => .ok []
  | [v] =>
    match toCV v with
    | none => .err "UNMODELLED"
    | some cv =>
      match Conv.convTo t cv with
      | .ok none => .ok []
      | .ok (some r) => (match ofCV r with | some x => .ok [x] | none => .err "UNMODELLED")
      | .err e => .err e
      | .panic => .panic
  | _ => .err "not-singleton"

def convertsOn (t : Conv.Ty) (input : List Val) : Res (List Val) :=
  match input with
  | [] => .ok []
  | [v] => (match toCV v with | none => .err "UNMODELLED" | some cv => .ok [.bool (Conv.convertsTo t cv)])
  | _ => .err "not-singleton"

def isTemporal : Val → Bool
  | .date _ | .dateTime _ | .time _ => true
  | _ => false

/-- `ArithmeticExpression.Evaluate` on evaluated operands: a Date / DateTime / Time plus or minus a
    Quantity is the calendar shift (FP.Model.Temporal / Calendar); everything else is FP.Model.Ops -/
def arithEv (op : ArithOp) (lv rv : List Val) : Res (List Val) :=
  match op, lv, rv with
  | .add, [l], [.quantity v u] => if isTemporal l then mapArithErr (Temporal.shiftVal 1 l v u) else arithColl op lv rv
  | .sub, [l], [.quantity v u] => if isTemporal l then mapArithErr (Temporal.shiftVal (-1) l v u) else arithColl op lv rv
  | _, _, _ => arithColl op lv rv

abbrev Ev := List Val → Res (List Val)

def crit (p : Ev) (x : Val) : Res (List BItem) := mapRes (·.map toB) (p [x])

/-- functions without arguments (existence.go, subsetting.go, not.go, strings.go, math.go) -/
def apply0 (name : String) (input : List Val) : Res (List Val) :=
  match name with
  | "empty" => .ok [.bool input.isEmpty]
  | "exists" => .ok [.bool (!input.isEmpty)]
  | "count" => .ok [.int input.length]
  | "allTrue" => .ok [.bool (!anyIs false input)]
  | "anyTrue" => .ok [.bool (anyIs true input)]
  | "allFalse" => .ok [.bool (!anyIs true input)]
  | "anyFalse" => .ok [.bool (anyIs false input)]
  | "first" => .ok (firstFn input)
  | "last" => .ok (lastFn input)
  | "tail" => .ok (tailFn input)
  | "distinct" => .ok (distinctFn sysEq input)
  | "isDistinct" => .ok [.bool (isDistinctFn sysEq input)]
  | "not" => mapRes bools (notFn (input.map toB))
  | "length" => onString input fun s => .ok [.int (lengthFn s)]
  | "toChars" => onString input fun s => .ok ((toChars s).map strVal)
  | "abs" => mathOn .abs input
  | "ceiling" => mathOn .ceiling input
  | "floor" => mathOn .floor input
  | "truncate" => mathOn .truncate input
  | "round" => (match input with | [] => .ok [] | [v] => roundVal 0 v | _ => .err "not-singleton")
  | "join" => joinOn [] input
  | "upper" => caseOn asciiUpper input
  | "lower" => caseOn asciiLower input
  | "toString" => convOn .string input
  | "toInteger" => convOn .integer input
  | "toDecimal" => convOn .decimal input
  | "toBoolean" => convOn .boolean input
  | "convertsToString" => convertsOn .string input
  | "convertsToInteger" => convertsOn .integer input
  | "convertsToDecimal" => convertsOn .decimal input
  | "convertsToBoolean" => convertsOn .boolean input
  | "toDate" => convOn .date input
  | "toDateTime" => convOn .dateTime input
  | "toTime" => convOn .time input
  | "toQuantity" => convOn .quantity input
  | "convertsToDate" => convertsOn .date input
  | "convertsToDateTime" => convertsOn .dateTime input
  | "convertsToTime" => convertsOn .time input
  | "convertsToQuantity" => convertsOn .quantity input
  | _ => .err "UNMODELLED"

/-- functions with one argument `a` (given as its evaluation function).  Criteria (`where`,
    `exists`, `all`, `select`) are evaluated once per item with that item as the input; every other
    argument is evaluated on the function's own input. -/
def apply1 (name : String) (a : Ev) (input : List Val) : Res (List Val) :=
  match name with
  | "where" => whereFn (crit a) input
  | "exists" => mapRes (fun b => [.bool b]) (existsFn (crit a) input)
  | "all" => mapRes (fun b => [.bool b]) (allFn (crit a) input)
  | "select" =>
    -- System items only: the partial-failure rule of Select (ErrInvalidField on some items)
    -- cannot arise, a projection fails on every item or on none
    selectFn (fun x => a [x]) input
  | "skip" => if input.isEmpty then .ok [] else (a input).bind fun av => (toInt32 av).bind fun n => .ok (skipFn n input)
  | "take" => if input.isEmpty then .ok [] else (a input).bind fun av => (toInt32 av).bind fun n => .ok (takeFn n input)
  | "intersect" => if input.isEmpty then .ok [] else (a input).bind fun av => .ok (intersectFn sysEq input av)
  | "exclude" => if input.isEmpty then .ok [] else (a input).bind fun av => .ok (excludeFn sysEq input av)
  | "startsWith" => onString input fun s => (a input).bind fun av => strArg1 av fun p => .ok [.bool (startsWith s p)]
  | "endsWith" => onString input fun s => (a input).bind fun av => strArg1 av fun p => .ok [.bool (endsWith s p)]
  | "contains" => onString input fun s => (a input).bind fun av => strArg1 av fun p => .ok [.bool (containsStr s p)]
  | "indexOf" => onString input fun s => (a input).bind fun av => strArg01 av fun p => .ok [.int (indexOf s p)]
  | "substring" =>
    onString input fun s => (a input).bind fun av => intArg1 av fun st =>
      .ok (match substring s st none with | some r => [strVal r] | none => [])
  | "join" => if input.isEmpty then .ok [] else (a input).bind fun av => (toStr av).bind fun d => joinOn d input
  | "power" =>
    -- Integer base and Integer exponent only; every other pair of numbers goes through float64 (`math.Pow`), not modelled
    if input.isEmpty then .ok [] else (a input).bind fun av =>
      if av.isEmpty then .ok [] else
      match input.head?, av.head? with
      | some (.int _), some (.int _) => (toInt32 input).bind fun b => (toInt32 av).bind fun e => .ok (powVal b e)
      | _, _ => .err "UNMODELLED"
  | "round" =>
    (match input with
     | [] => .ok []
     | [v] => (a input).bind fun av => (toInt32 av).bind fun p =>
         if p < 0 then .err "negative-precision" else roundVal p v
     | _ => .err "not-singleton")
  | _ => .err "UNMODELLED"

def apply2 (name : String) (a b : Ev) (input : List Val) : Res (List Val) :=
  match name with
  | "iif" => (a input).bind fun cv => (toBool (cv.map toB)).bind fun t => if t then b input else .ok []
  | "substring" =>
    onString input fun s => (a input).bind fun av => intArg1 av fun st =>
      if st < 0 ∨ st ≥ s.length then .ok [] else
      (b input).bind fun bv => intArg1 bv fun ln =>
        .ok (match substring s st (some ln) with | some r => [strVal r] | none => [])
  | "replace" =>
    onString input fun s => (a input).bind fun av => strArg01 av fun p =>
      (b input).bind fun bv => strArg01 bv fun r => .ok [strVal (replaceAll s p r)]
  | _ => .err "UNMODELLED"

def apply3 (name : String) (a b c : Ev) (input : List Val) : Res (List Val) :=
  match name with
  | "iif" => (a input).bind fun cv => (toBool (cv.map toB)).bind fun t => if t then b input else c input
  | _ => .err "UNMODELLED"

/-- `Evaluate`: the expression, the environment (external constants), the input collection -/
def eval (env : Env) : E → List Val → Res (List Val)
  | .lit v, _ => .ok [v]
  | .null, _ => .ok []
  | .this, input => .ok input
  | .ext n, _ =>
    match env.find? (fun p => p.1 == n) with
    | some p => .ok p.2
    | none => .err "constant-not-found"
  | .typeRoot _, _ => .ok []                                 -- System items are never messages
  | .field _, input => if input.isEmpty then .ok [] else .err "invalid-field"
  | .seq a b, input => (eval env a input).bind fun mid => eval env b mid
  | .index i, input => (eval env i input).bind fun iv => indexColl iv input
  | .neg e, input => (eval env e input).bind negColl
  | .bool op l r, input =>
    (eval env l input).bind fun lv => (eval env r input).bind fun rv =>
      mapRes bools (boolExpr op (lv.map toB) (rv.map toB))
  | .eq n l r, input =>
    (eval env l input).bind fun lv => (eval env r input).bind fun rv =>
      .ok (bools (eqExpr n (lv.map .prim) (rv.map .prim)))
  | .cmp op l r, input =>
    (eval env l input).bind fun lv => (eval env r input).bind fun rv =>
      mapRes bools (cmpExpr op (lv.map some) (rv.map some))
  | .arith op l r, input =>
    (eval env l input).bind fun lv => (eval env r input).bind fun rv => arithEv op lv rv
  | .concat l r, input =>
    (eval env l input).bind fun lv => (eval env r input).bind fun rv => concatColl lv rv
  | .isT e t, input =>
    (eval env e input).bind fun r => typeOpColl (fun x => [.bool (itemIs x t)]) r
  | .asT e t, input =>
    (eval env e input).bind fun r => typeOpColl (fun x => if itemIs x t then [x] else []) r
  | .argNil, _ => .err "UNMODELLED"
  | .argCons _ _, _ => .err "UNMODELLED"
  | .fn "unimplemented!" _, _ => .err "not-implemented"
  | .fn name .argNil, input => if isClockFn name then clockFn name env else apply0 name input
  | .fn name (.argCons a .argNil), input => apply1 name (eval env a) input
  | .fn name (.argCons a (.argCons b .argNil)), input => apply2 name (eval env a) (eval env b) input
  | .fn name (.argCons a (.argCons b (.argCons c .argNil))), input =>
    apply3 name (eval env a) (eval env b) (eval env c) input
  | .fn _ _, _ => .err "UNMODELLED"

/-! ### the whole pipeline -/

inductive Outcome where
  | result (c : List Val)
  | evalError (e : String)
  | compileError
  | unmodelled
  | crash
deriving DecidableEq, Repr

def finish (env : Env) (input : List Val) : CRes (E × Bool) → Outcome
  | .error => .compileError
  | .unmodelled => .unmodelled
  | .ok (e, _) =>
    match eval (("context", input) :: ("ucum", [.str (utf8 "http://unitsofmeasure.org".toList)]) :: env) e input with
    | .ok c => .result c
    | .err "UNMODELLED" => .unmodelled
    | .err m => .evalError m
    | .panic => .crash

/-- Compile on a token sequence, then Evaluate -/
def runToks (t : List FP.Gen.FuncTable.Entry) (ts : List Tok) (env : Env) (input : List Val) : Outcome :=
  match parseProg ts with
  | none => .compileError
  | some ex => finish env input (compile t ex false)

/-- Compile on a source text (characters), then Evaluate -/
def run (t : List FP.Gen.FuncTable.Entry) (src : String) (env : Env) (input : List Val) : Outcome :=
  match parse src with
  | none => .compileError
  | some ex => finish env input (compile t ex false)

end FP.Model.Eval
