/-
  FP.Model.Calendar — proleptic Gregorian calendar arithmetic on wall-clock readings, and the
  date/time arithmetic of fhirpath/system (quantity.go shiftFor/apply, date.go, date_time.go,
  time.go): a quantity is converted to whole units of the value's precision, years and months are
  added with end-of-month clamping, days by day count, time-valued units as an exact duration.
  Go's time.AddDate / time.Add are modelled by their calendar meaning (trusted, tied by the
  correspondence check).  Amounts are unbounded integers here; the real code computes in int64
  (the correspondence covers amounts far below that).
-/
import FP.Basic
import FP.Model.Dec
import FP.Model.Text
namespace FP.Model.Calendar
open FP FP.Model FP.Model.Text

/-- days from 0000-03-01 to March 1st of the March-based year y -/
def yearStart (y : Int) : Int := 365 * y + y / 4 - y / 100 + y / 400

/-- days before month mp (0 = March … 11 = February) within a March-based year -/
def monthStart (mp : Int) : Int := (153 * mp + 2) / 5

/-- day number of a civil date (0 = 0000-03-01) -/
def daysFromCivil (y m d : Int) : Int :=
  let y' := if m ≤ 2 then y - 1 else y
  let m' := if m ≤ 2 then m + 9 else m - 3
  yearStart y' + monthStart m' + d - 1

/-- the March-based year containing day z -/
def yearOf (z : Int) : Int :=
  let y0 := (400 * z) / 146097
  let y1 := if yearStart (y0 + 1) ≤ z then y0 + 1 else y0
  if z < yearStart y1 then y1 - 1 else y1

/-- the civil date of day-of-year `doy` (0 = March 1st) of the March-based year y -/
def civilOfDoy (y doy : Int) : Int × Int × Int :=
  let mp := (5 * doy + 2) / 153
  let d := doy - monthStart mp + 1
  let m := if mp < 10 then mp + 3 else mp - 9
  (if m ≤ 2 then y + 1 else y, m, d)

/-- the civil date of day z, given the March-based year y that contains it -/
def civilOfYear (z y : Int) : Int × Int × Int := civilOfDoy y (z - yearStart y)

def civilFromDays (z : Int) : Int × Int × Int := civilOfYear z (yearOf z)

def dayNumber (w : Wall) : Int := daysFromCivil w.year w.month w.day

def addDays (w : Wall) (n : Int) : Wall :=
  let c := civilFromDays (dayNumber w + n)
  { w with year := c.1, month := c.2.1, day := c.2.2 }

/-- add k months, clamping the day to the end of the target month (addMonth / addYear of date.go) -/
def addMonthsClamp (w : Wall) (k : Int) : Wall :=
  let t := w.year * 12 + (w.month - 1) + k
  let y := t / 12
  let m := t % 12 + 1
  { w with year := y, month := m, day := if w.day ≤ daysIn m y then w.day else daysIn m y }

def nsPerSec : Int := 1000000000
def nsPerDay : Int := 86400 * nsPerSec

def timeOfDayNs (w : Wall) : Int := ((w.hour * 60 + w.minute) * 60 + w.second) * nsPerSec + w.nanos

def withTimeOfDay (w : Wall) (r : Int) : Wall :=
  { w with hour := r / (3600 * nsPerSec), minute := (r / (60 * nsPerSec)) % 60, second := (r / nsPerSec) % 60, nanos := r % nsPerSec }

/-- add an exact duration (the offset is fixed, so the wall clock moves by the same amount) -/
def addNanos (w : Wall) (ns : Int) : Wall :=
  let t := timeOfDayNs w + ns
  withTimeOfDay (addDays w (t / nsPerDay)) (t % nsPerDay)

/-- the instant of a reading, in nanoseconds from 0000-03-01T00:00Z -/
def instantNs (w : Wall) : Int := dayNumber w * nsPerDay + timeOfDayNs w - w.offset * nsPerSec

/-! ### quantities -/

inductive Unit where
  | year | month | week | day | hour | minute | second | millisecond
deriving DecidableEq, Repr

/-- the calendar duration keywords the code switches on (`milliseconds` included) -/
def unitOf (u : String) : Option Unit :=
  if u == "year" || u == "years" then some .year
  else if u == "month" || u == "months" then some .month
  else if u == "week" || u == "weeks" then some .week
  else if u == "day" || u == "days" then some .day
  else if u == "hour" || u == "hours" then some .hour
  else if u == "minute" || u == "minutes" then some .minute
  else if u == "second" || u == "seconds" then some .second
  else if u == "millisecond" || u == "milliseconds" then some .millisecond
  else none

/-- precision classes of dateTimeMap: 0 year … 5 second -/
abbrev Prec := Nat

structure Shift where
  years : Int := 0
  months : Int := 0
  days : Int := 0
  nanos : Int := 0
deriving DecidableEq, Repr

/-- `Quantity.timeDuration` in nanoseconds; `none` for a unit that is not time-valued -/
def durationNs (v : Dec) (u : Unit) : Option Int :=
  let i := Dec.intPartBig v
  match u with
  | .hour => some (i * 3600 * nsPerSec)
  | .minute => some (i * 60 * nsPerSec)
  | .second => some (Dec.intPartBig ⟨v.coeff, v.exp + 3⟩ * 1000000)      -- whole milliseconds, the rest dropped
  | .millisecond => some (i * 1000000)
  | _ => none

/-- Int division truncating toward zero (Go's `/`) -/
def tquo (a b : Int) : Int := Int.tdiv a b

/-- `toYears` -/
def toYears (v : Dec) (u : Unit) : Int :=
  let i := Dec.intPartBig v
  match u with
  | .year => i
  | .month => tquo i 12
  | .week => tquo (i * 7) 365
  | .day => tquo i 365
  | .hour => tquo i (365 * 24)
  | .minute => tquo i (365 * 24 * 60)
  | .second => tquo i (365 * 24 * 60 * 60)
  | .millisecond => tquo (tquo i (365 * 24 * 60 * 60)) 1000

/-- `toMonths` -/
def toMonths (v : Dec) (u : Unit) : Int :=
  let i := Dec.intPartBig v
  match u with
  | .year => i * 12
  | .month => i
  | .week => tquo (i * 7) 30
  | .day => tquo i 30
  | .hour => tquo i (30 * 24)
  | .minute => tquo i (30 * 24 * 60)
  | .second => tquo i (30 * 24 * 60 * 60)
  | .millisecond => tquo (tquo i (30 * 24 * 60 * 60)) 1000

/-- `Quantity.shiftFor(precision)`: the quantity in whole units of the precision -/
def shiftFor (p : Prec) (v : Dec) (u : Unit) : Shift :=
  match p with
  | 0 => { years := toYears v u }
  | 1 => { months := toMonths v u }
  | _ =>
    let i := Dec.intPartBig v
    match u with
    | .year => { years := i }
    | .month => { months := i }
    | .week => { days := 7 * i }
    | .day => { days := i }
    | _ =>
      let d := (durationNs v u).getD 0
      if p == 2 then { days := tquo d nsPerDay }
      else if p == 3 then { nanos := tquo d (3600 * nsPerSec) * (3600 * nsPerSec) }
      else if p == 4 then { nanos := tquo d (60 * nsPerSec) * (60 * nsPerSec) }
      else { nanos := d }

/-- `calendarShift.apply` -/
def applyShift (w : Wall) (s : Shift) (sign : Int) : Wall :=
  let w1 := if s.years != 0 then addMonthsClamp w (12 * sign * s.years) else w
  let w2 := if s.months != 0 then addMonthsClamp w1 (sign * s.months) else w1
  let w3 := if s.days != 0 then addDays w2 (sign * s.days) else w2
  if s.nanos != 0 then addNanos w3 (sign * s.nanos) else w3

/-- Date ± quantity (`Date.shift`): a full date takes no time-of-day unit -/
def shiftDate (p : Prec) (w : Wall) (v : Dec) (unit : String) (sign : Int) : Res Wall :=
  match unitOf unit with
  | none => .err "mismatched-unit"
  | some u =>
    if p ≥ 2 && (u == .hour || u == .minute || u == .second || u == .millisecond) then .err "mismatched-unit"
    else .ok (applyShift w (shiftFor (if p ≥ 2 then 2 else p) v u) sign)

/-- DateTime ± quantity (`DateTime.shift`) -/
def shiftDateTime (p : Prec) (w : Wall) (v : Dec) (unit : String) (sign : Int) : Res Wall :=
  match unitOf unit with
  | none => .err "mismatched-unit"
  | some u => .ok (applyShift w (shiftFor p v u) sign)

/-- Time ± quantity (`Time.shift`); p: 0 hour, 1 minute, 2 second; wraps around midnight -/
def shiftTime (p : Prec) (w : Wall) (v : Dec) (unit : String) (sign : Int) : Res Wall :=
  match unitOf unit with
  | none => .err "mismatched-unit"
  | some u =>
    match durationNs v u with
    | none => .err "mismatched-unit"
    | some d =>
      let d := if p == 0 then tquo d (3600 * nsPerSec) * (3600 * nsPerSec)
               else if p == 1 then tquo d (60 * nsPerSec) * (60 * nsPerSec) else d
      .ok (withTimeOfDay w ((timeOfDayNs w + sign * d) % nsPerDay))

end FP.Model.Calendar
