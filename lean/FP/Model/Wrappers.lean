/-
  FP.Model.Wrappers — hand models for C20:
  * `protofields.toSnakeCase` (strcase.go:18): two regexp passes + ToLower, as character scans
    (regexp.ReplaceAllString takes leftmost non-overlapping matches, `+` greedy);
  * name → oneof field lookup for ContainedResource / Extension.ValueX (fields.go:82,159,169);
  * `containedresource.Wrap/Unwrap`, `bundle.Unwrap` on an abstract carrier;
  * the URL-keyed extension mutators (extension.go:155-232) on lists of (url, value).
-/
import FP.Basic
import FP.Gen.Schema
namespace FP.Model
open FP

def isUp (c : Char) : Bool := 'A' ≤ c && c ≤ 'Z'
def isLo (c : Char) : Bool := 'a' ≤ c && c ≤ 'z'
def isLoDig (c : Char) : Bool := isLo c || ('0' ≤ c && c ≤ '9')

/-- pass 1: `(.)([A-Z][a-z]+)` → `${1}_${2}`.
    `run = true`: we are inside the `[a-z]+` run of a match (characters are copied and are
    not candidates for group 1). -/
def snake1 : Bool → List Char → List Char
  | _, [] => []
  | true, c :: rest => if isLo c then c :: snake1 true rest else
      -- run ended; `c` is scanned as a normal position
      (match rest with
       | u :: l :: _ => if c != '\n' && isUp u && isLo l then c :: '_' :: snake1Up rest else c :: snake1 false rest
       | _ => c :: snake1 false rest)
  | false, c :: rest =>
      (match rest with
       | u :: l :: _ => if c != '\n' && isUp u && isLo l then c :: '_' :: snake1Up rest else c :: snake1 false rest
       | _ => c :: snake1 false rest)
where
  /-- copy the capital that starts group 2, then its lower-case run -/
  snake1Up : List Char → List Char
    | [] => []
    | u :: rest => u :: snake1 true rest

/-- pass 2: `([a-z0-9])([A-Z])` → `${1}_${2}`; `skip` = the previous match consumed this char -/
def snake2 : Bool → List Char → List Char
  | _, [] => []
  | true, c :: rest => c :: snake2 false rest
  | false, c :: rest =>
      match rest with
      | u :: _ => if isLoDig c && isUp u then c :: '_' :: snake2 true rest else c :: snake2 false rest
      | [] => [c]

def toSnakeCase (s : String) : String :=
  String.ofList ((snake2 false (snake1 false s.toList)).map Char.toLower)

/-- `typeToExtensionFieldName` -/
def extensionFieldName (name : String) : String :=
  let f := toSnakeCase name
  if f == "string" then "string_value" else f

/-- `getContainedResourceOneOf`: the ContainedResource field carrying resource type `name` -/
def containedField (name : String) : Option String :=
  let f := toSnakeCase name
  if FP.Gen.Schema.containedOneof.any (fun p => p.2 == f) then some f else none

/-- `getExtensionValueX` -/
def extensionField (name : String) : Option String :=
  let f := extensionFieldName name
  if FP.Gen.Schema.extensionValueX.any (fun p => p.2 == f) then some f else none

/-! abstract carrier: a contained resource is (oneof field, resource id); Wrap traps when the
    registry has no field for the type (the code's explicit `panic`) -/
structure Res0 where
  type : String
  id : Nat
deriving DecidableEq, Repr

def wrap (r : Res0) : FP.Res (String × Res0) :=
  match containedField r.type with
  | some f => .ok (f, r)
  | none => .panic
def unwrap (c : String × Res0) : Res0 := c.2
def bundleUnwrap (entries : List (String × Res0)) : List Res0 := entries.map unwrap

/-! extensions as (url, value) -/
abbrev Ext := String × Nat

def appendInto (l : List Ext) (es : List Ext) : List Ext := l ++ es
def overwrite (_ : List Ext) (es : List Ext) : List Ext := es
def upsert : List Ext → Ext → List Ext
  | [], e => [e]
  | x :: xs, e => if x.1 == e.1 then (x.1, e.2) :: xs else x :: upsert xs e
def setByURL (l : List Ext) (url : String) (vals : List Nat) : List Ext :=
  l.filter (fun x => x.1 != url) ++ vals.map (fun v => (url, v))

end FP.Model
