/-
  FP.Model.Text — the textual side of System values: Go's number rendering and parsing
  (`fmt %v` of an int32, `strconv.ParseInt`), and Go's `time.Format` / `time.Parse` restricted to
  the layout elements that occur in fhirpath/system/layouts.go (2006, 01, 02, 15, 04, 05, .000,
  Z07:00 and literal characters).  Hand model of the Go standard library (trusted base), tied by
  the correspondence check; the layout strings themselves are regenerated from the source.

  `time.Parse` is modelled in two stages.  Stage 1 (`splitW`) looks only at the *shape* of the
  input (which characters are digits, and the non-digit characters themselves) and decides how
  many characters each layout element consumes; stage 2 (`readElem`) converts the pieces and
  applies the range checks.  Go interleaves the two, but a failure of either is a failure of
  the whole parse and nothing else is observable.
-/
import FP.Basic
import FP.Model.Dec
namespace FP.Model.Text
open FP.Model

abbrev S := List Char

def isDigit (c : Char) : Bool := decide (48 ≤ c.toNat) && decide (c.toNat ≤ 57)
def digitVal (c : Char) : Nat := c.toNat - 48
def digitChar (d : Nat) : Char := Char.ofNat (48 + d)

def digitsVal (s : S) : Nat := s.foldl (fun a c => a * 10 + digitVal c) 0

/-- decimal digits, most significant first ("0" for 0) -/
def natDigits (n : Nat) : S :=
  if n < 10 then [digitChar n] else natDigits (n / 10) ++ [digitChar (n % 10)]
termination_by n
decreasing_by omega

/-- Go `appendInt(b, x, width)` for x ≥ 0: zero-padded to at least `width` digits -/
def padNat (w n : Nat) : S := let d := natDigits n; List.replicate (w - d.length) '0' ++ d

/-- `fmt.Sprintf("%v", int32)` -/
def renderInt (i : Int) : S := if i < 0 then '-' :: natDigits i.natAbs else natDigits i.natAbs

/-- `strconv.ParseInt(s, 10, bits)`: optional sign, at least one digit, nothing else, in range -/
def parseIntGo (s : S) (bits : Nat) : Option Int :=
  let body := match s with | '+' :: r => r | '-' :: r => r | r => r
  let neg := match s with | '-' :: _ => true | _ => false
  if body.isEmpty || !body.all isDigit then none else
  let v : Int := digitsVal body
  let i : Int := if neg then -v else v
  if -(2 ^ (bits - 1) : Int) ≤ i ∧ i < (2 ^ (bits - 1) : Int) then some i else none

/-- the `time` package's own `atoi`: optional sign, then digits only (possibly none) -/
def atoiTime (s : S) : Option Int :=
  let body := match s with | '+' :: r => r | '-' :: r => r | r => r
  let neg := match s with | '-' :: _ => true | _ => false
  if !body.all isDigit then none else
  let v : Int := digitsVal body
  some (if neg then -v else v)

/-! ### layouts -/

inductive Elem where
  | year4 | month2 | day2 | hour | minute2 | second2
  | frac0 (n : Nat)      -- ".000": separator plus n digits
  | tzColon              -- "Z07:00"
  | lit (c : Char)
deriving DecidableEq, Repr

/-- `nextStdChunk` restricted to the chunks above; anything else is a literal character -/
def goLayout : S → List Elem
  | '2' :: '0' :: '0' :: '6' :: r => .year4 :: goLayout r
  | '0' :: '1' :: r => .month2 :: goLayout r
  | '0' :: '2' :: r => .day2 :: goLayout r
  | '1' :: '5' :: r => .hour :: goLayout r
  | '0' :: '4' :: r => .minute2 :: goLayout r
  | '0' :: '5' :: r => .second2 :: goLayout r
  | '.' :: '0' :: '0' :: '0' :: r => .frac0 3 :: goLayout r
  | 'Z' :: '0' :: '7' :: ':' :: '0' :: '0' :: r => .tzColon :: goLayout r
  | c :: r => .lit c :: goLayout r
  | [] => []

inductive Kind where
  | year | month | day | hour | minute | second | nanos | offset
deriving DecidableEq, Repr

/-- wall-clock reading with its UTC offset in seconds (what a Go `time.Time` in a fixed zone shows) -/
structure Wall where
  year : Int
  month : Int
  day : Int
  hour : Int
  minute : Int
  second : Int
  nanos : Int
  offset : Int
deriving DecidableEq, Repr

/-- what `time.Parse` starts from -/
def Wall.zero : Wall := ⟨0, 1, 1, 0, 0, 0, 0, 0⟩

def Wall.get (w : Wall) : Kind → Int
  | .year => w.year | .month => w.month | .day => w.day | .hour => w.hour
  | .minute => w.minute | .second => w.second | .nanos => w.nanos | .offset => w.offset

def Wall.set (w : Wall) (k : Kind) (v : Int) : Wall :=
  match k with
  | .year => { w with year := v } | .month => { w with month := v } | .day => { w with day := v }
  | .hour => { w with hour := v } | .minute => { w with minute := v } | .second => { w with second := v }
  | .nanos => { w with nanos := v } | .offset => { w with offset := v }

/-! #### formatting -/

def formatElem (w : Wall) : Elem → S
  | .year4 => padNat 4 w.year.toNat
  | .month2 => padNat 2 w.month.toNat
  | .day2 => padNat 2 w.day.toNat
  | .hour => padNat 2 w.hour.toNat
  | .minute2 => padNat 2 w.minute.toNat
  | .second2 => padNat 2 w.second.toNat
  | .frac0 n => '.' :: (padNat 9 w.nanos.toNat).take n
  | .tzColon =>
    if w.offset = 0 then ['Z'] else
    let zone := Int.tdiv w.offset 60
    (if zone < 0 then '-' else '+') :: (padNat 2 (zone.natAbs / 60) ++ ':' :: padNat 2 (zone.natAbs % 60))
  | .lit c => [c]

def format (l : List Elem) (w : Wall) : S := l.flatMap (formatElem w)

/-! #### parsing, stage 1: shapes -/

/-- the shape of a character: `none` for a digit, the character itself otherwise -/
abbrev Sym := Option Char
def symOf (c : Char) : Sym := if isDigit c then none else some c
def shapeOf (s : S) : List Sym := s.map symOf

def isD (x : Option Sym) : Bool := x == some none
def isSep (x : Option Sym) : Bool := x == some (some '.') || x == some (some ',')

/-- number of leading digit symbols -/
def leadingDigits : List Sym → Nat
  | none :: r => leadingDigits r + 1
  | _ => 0

/-- how many characters each element consumes; `none`: the parse fails on shape alone -/
def splitW : List Elem → List Sym → Option (List Nat)
  | [], [] => some []
  | [], _ :: _ => none                                -- extra text
  | e :: es, sh =>
    let take (n : Nat) : Option (List Nat) := if sh.length < n then none else (splitW es (sh.drop n)).map (n :: ·)
    match e with
    | .lit c => if isDigit c then none else if sh.head? == some (some c) then take 1 else none
    | .year4 => if (sh.take 4).length == 4 && (sh.take 4).all (· == none) then take 4 else none
    | .month2 | .day2 | .minute2 => if isD sh[0]? && isD sh[1]? then take 2 else none
    | .hour => if isD sh[0]? then (if isD sh[1]? then take 2 else take 1) else none
    | .second2 =>
      if isD sh[0]? && isD sh[1]? then
        -- fractional second in the input but none in the layout: swallow it
        if isSep sh[2]? && isD sh[3]? && (match es with | .frac0 _ :: _ => false | _ => true) then
          take (3 + leadingDigits (sh.drop 3))
        else take 2
      else none
    | .frac0 n =>
      if sh.length < n + 1 then none
      else if !isSep sh[0]? then none
      else if n == 0 then take 1
      else if !(isD sh[1]? || sh[1]? == some (some '+') || sh[1]? == some (some '-')) then none
      else if !((sh.drop 2).take (n - 1)).all (· == none) then none
      else take (n + 1)
    | .tzColon =>
      if sh.head? == some (some 'Z') then take 1
      else if sh.length < 6 then none
      else if sh[3]? != some (some ':') then none
      else if !(isD sh[1]? && isD sh[2]? && isD sh[4]? && isD sh[5]?) then none
      else if !(sh[0]? == some (some '+') || sh[0]? == some (some '-')) then none
      else take 6

/-- cut `s` into pieces of the given widths -/
def splitBy : List Nat → S → List S
  | [], _ => []
  | n :: ns, s => s.take n :: splitBy ns (s.drop n)

/-! #### parsing, stage 2: values and ranges -/

def pow10 (n : Nat) : Int := (10 : Int) ^ n

/-- `parseNanoseconds(value, nbytes)` on the piece `sep :: digits` -/
def parseNanos (piece : S) : Option Int :=
  match piece with
  | [] => none
  | _ :: ds =>
    let ds := ds.take 9
    match atoiTime ds with
    | none => none
    | some v => if v < 0 then none else some (v * pow10 (9 - ds.length))

def readSecond (piece : S) : Option (List (Kind × Int)) :=
  let v : Int := digitsVal (piece.take 2)
  if 60 ≤ v then none else
  if piece.length ≤ 2 then some [(.second, v)] else
  (parseNanos (piece.drop 2)).map fun ns => [(.second, v), (.nanos, ns)]

def readTz (piece : S) : Option (List (Kind × Int)) :=
  if piece == ['Z'] then some [(.offset, 0)]
  else if piece.length != 6 then none
  else
    let hr : Int := digitsVal ((piece.drop 1).take 2)
    let mm : Int := digitsVal ((piece.drop 4).take 2)
    if 24 < hr || 60 < mm then none else
    some [(.offset, (if piece.head? == some '-' then -1 else 1) * ((hr * 60 + mm) * 60))]

def readElem (e : Elem) (piece : S) : Option (List (Kind × Int)) :=
  match e with
  | .lit _ => some []
  | .year4 => some [(.year, digitsVal piece)]
  | .month2 => let v : Int := digitsVal piece; if v ≤ 0 || 12 < v then none else some [(.month, v)]
  | .day2 => some [(.day, digitsVal piece)]
  | .hour => let v : Int := digitsVal piece; if 24 ≤ v then none else some [(.hour, v)]
  | .minute2 => let v : Int := digitsVal piece; if 60 ≤ v then none else some [(.minute, v)]
  | .second2 => readSecond piece
  | .frac0 _ => (parseNanos piece).map fun ns => [(.nanos, ns)]
  | .tzColon => readTz piece

def readAll : List Elem → List S → Option (List (Kind × Int))
  | [], _ => some []
  | e :: es, p :: ps => do
      let a ← readElem e p
      let rest ← readAll es ps
      pure (a ++ rest)
  | _ :: _, [] => none

def isLeap (y : Int) : Bool := y % 4 == 0 && (y % 100 != 0 || y % 400 == 0)
def daysIn (month year : Int) : Int :=
  if month == 2 then (if isLeap year then 29 else 28)
  else if month == 4 || month == 6 || month == 9 || month == 11 then 30 else 31

def applyAll (as : List (Kind × Int)) (w : Wall) : Wall := as.foldl (fun acc a => acc.set a.1 a.2) w

/-- `time.Parse(layout, value)` for a tokenised layout -/
def parseWith (l : List Elem) (s : S) : Option Wall :=
  match splitW l (shapeOf s) with
  | none => none
  | some ws =>
    match readAll l (splitBy ws s) with
    | none => none
    | some as =>
      let w := applyAll as Wall.zero
      if w.day < 1 || daysIn w.month w.year < w.day then none else some w

/-- the `for _, l := range layouts { if t, err = time.Parse(l, value); err == nil { return … } }` loop:
    the first layout (by position) that parses, with the value -/
def parseFirst : List (List Elem) → S → Option (Nat × Wall)
  | [], _ => none
  | l :: ls, s =>
    match parseWith l s with
    | some w => some (0, w)
    | none => (parseFirst ls s).map fun p => (p.1 + 1, p.2)

/-- the same loop with an acceptance test after a successful parse (`continue` when it fails) -/
def parseFirstOk (ok : Wall → Bool) : List (List Elem) → S → Option (Nat × Wall)
  | [], _ => none
  | l :: ls, s =>
    match parseWith l s with
    | some w => if ok w then some (0, w) else (parseFirstOk ok ls s).map fun p => (p.1 + 1, p.2)
    | none => (parseFirstOk ok ls s).map fun p => (p.1 + 1, p.2)

/-! ### Boolean, Decimal and Quantity texts -/

def lowerAscii (c : Char) : Char := if 65 ≤ c.toNat && c.toNat ≤ 90 then Char.ofNat (c.toNat + 32) else c

/-- `system.ParseBoolean` (`strings.ToLower` modelled on ASCII; no non-ASCII letter lower-cases
    into the letters of the accepted words) -/
def parseBool (s : S) : Option Bool :=
  let l := s.map lowerAscii
  if l == "true".toList || l == "t".toList || l == "yes".toList || l == "y".toList || l == "1".toList || l == "1.0".toList then some true
  else if l == "false".toList || l == "f".toList || l == "no".toList || l == "n".toList || l == "0".toList || l == "0.0".toList then some false
  else none

/-- `big.Int.SetString(s, 10)` / `strconv.ParseInt(s, 10, 64)` on at most 18 characters: optional sign, digits -/
def parseBig (s : S) : Option Int :=
  let body := match s with | '+' :: r => r | '-' :: r => r | r => r
  let neg := match s with | '-' :: _ => true | _ => false
  if body.isEmpty || !body.all isDigit then none else
  let v : Int := digitsVal body
  some (if neg then -v else v)

def trimZeros (s : S) : S := (s.reverse.dropWhile (· == '0')).reverse

/-- shopspring `Decimal.String()` -/
def renderDec (d : Dec) : S :=
  if 0 ≤ d.exp then renderInt (d.coeff * (10 : Int) ^ d.exp.toNat)
  else
    let str := natDigits d.coeff.natAbs
    let k := (-d.exp).toNat
    let ip := if k < str.length then str.take (str.length - k) else ['0']
    let fp := if k < str.length then str.drop (str.length - k) else List.replicate (k - str.length) '0' ++ str
    let fp' := trimZeros fp
    let number := if fp'.isEmpty then ip else ip ++ '.' :: fp'
    if d.coeff < 0 then '-' :: number else number

/-- index of the first character satisfying p -/
def indexWhere (p : Char → Bool) : S → Option Nat
  | [] => none
  | c :: r => if p c then some 0 else (indexWhere p r).map (· + 1)

/-- shopspring `NewFromString` (v1.4.0) -/
def parseDecGo (s : S) : Option Dec :=
  -- scientific notation
  let (mant, e?) : S × Option (Option Int) :=
    match indexWhere (fun c => c == 'E' || c == 'e') s with
    | some i => (s.take i, some (parseIntGo (s.drop (i + 1)) 32))
    | none => (s, none)
  match e? with
  | some none => none
  | _ =>
    let e : Int := match e? with | some (some x) => x | _ => 0
    if (mant.filter (· == '.')).length > 1 then none else
    let (intS, exp) : S × Int :=
      match indexWhere (· == '.') mant with
      | none => (mant, e)
      | some p => (mant.take p ++ mant.drop (p + 1), e - ((mant.drop (p + 1)).length : Int))
    match parseBig intS with
    | none => none
    | some v => if exp < -2147483648 || 2147483647 < exp then none else some ⟨v, exp⟩

def isSpaceRe (c : Char) : Bool := c == ' ' || c == '\t' || c == '\n' || c == '\x0c' || c == '\r'
def isAlpha (c : Char) : Bool := (65 ≤ c.toNat && c.toNat ≤ 90) || (97 ≤ c.toNat && c.toNat ≤ 122)

/-- the quantity regexp of conversion.go,
    `^(?P<value>(\+|-)?\d+(\.\d+)?)\s*('(?P<unit>[^']+)'|(?P<time>[a-zA-Z]+))?$`:
    (value, quoted unit, bare word) -/
def matchQuantity (s : S) : Option (S × S × S) :=
  let sign : S := match s with | '+' :: _ => ['+'] | '-' :: _ => ['-'] | _ => []
  let r0 := s.drop sign.length
  let ds := r0.takeWhile isDigit
  if ds.isEmpty then none else
  let r1 := r0.drop ds.length
  let frac : S := match r1 with
    | '.' :: r => let fs := r.takeWhile isDigit; if fs.isEmpty then [] else '.' :: fs
    | _ => []
  let value := sign ++ ds ++ frac
  let r2 := r1.drop frac.length
  let r3 := r2.dropWhile isSpaceRe
  match r3 with
  | [] => some (value, [], [])
  | '\'' :: r =>
    let u := r.takeWhile (· != '\'')
    if u.isEmpty then none else
    if r.drop u.length == ['\''] then some (value, u, []) else none
  | _ =>
    let t := r3.takeWhile isAlpha
    if t.isEmpty then none else
    if r3.drop t.length == [] then some (value, [], t) else none

end FP.Model.Text
