/-
  FP.Model.Types — hand model of `reflection.TypeOf` (type_specifier.go:59), `TypeSpecifier.Is`
  (:79) and of `IsExpression`/`AsExpression` on single items, over the *regenerated* `parent`,
  validity tables (FP.Gen.TypeParent) and the descriptor-derived schema tables (FP.Gen.Schema).
-/
import FP.Basic
import FP.Gen.TypeParent
import FP.Gen.Schema
namespace FP.Model
open FP FP.Go FP.Gen.TypeParent

/-- what `TypeOf` reads off an item -/
inductive TItem where
  | sys (name : String)                                   -- a System value; `Name()`
  | msg (name : String) (isCode nested hasModExt : Bool)  -- a FHIR message after looking through a `choice` oneof
deriving DecidableEq, Repr

def toLowerCamel := FP.Gen.Schema.toLowerCamel
def isValidElementType := FP.Gen.Schema.isValidElementType
def isValidResourceType := FP.Gen.Schema.isValidResourceType

def typeOf : TItem → TypeSpecifier
  | .sys n => ⟨System, n⟩
  | .msg n isCode nested hasModExt =>
    if isCode then ⟨FHIR, "code"⟩
    else if nested then (if hasModExt then ⟨FHIR, "BackboneElement"⟩ else ⟨FHIR, "Element"⟩)
    else ⟨FHIR, primitiveToLowercase toLowerCamel n⟩

def parent (ts : TypeSpecifier) : TypeSpecifier :=
  (parentG toLowerCamel isValidElementType ts).getD ts

/-- `TypeSpecifier.Is`, with the recursion depth made explicit (the chain of parents reaches
    its fixed point within four steps; see `FP.Props.C12.is_fuel_enough`). -/
def isFuel : Nat → TypeSpecifier → TypeSpecifier → Bool
  | 0, _, _ => false
  | n + 1, ts, input =>
    if ts.ns != input.ns then false
    else if ts == parent ts && ts.typeName != input.typeName then false
    else if ts.typeName == input.typeName then true
    else isFuel n (parent ts) input

def is (ts input : TypeSpecifier) : Bool := isFuel 8 ts input

/-- `NewTypeSpecifier` / `NewQualifiedTypeSpecifier` as called by the visitor -/
def ofExcept : G (Except String TypeSpecifier) → Res TypeSpecifier
  | none => .panic
  | some (.ok t) => .ok t
  | some (.error e) => .err e

def resolve (ns : Option String) (name : String) : Res TypeSpecifier :=
  match ns with
  | none => ofExcept (newTypeSpecifierG toLowerCamel isValidElementType isValidResourceType name)
  | some n => ofExcept (newQualifiedTypeSpecifierG toLowerCamel isValidElementType isValidResourceType n name)

/-- `VisitTypeSpecifier`: a type specifier is a dotted name of one part (looked up in FHIR, then in
    System) or two parts (namespace and name); anything longer names no type -/
def resolveParts : List String → Res TypeSpecifier
  | [n] => resolve none n
  | [ns, n] => resolve (some ns) n
  | _ => .err "too many type qualifiers"

end FP.Model
