/-
  FP.Model.Navigate — hand model of one navigation step, `FieldExpression.Evaluate`
  (expr/expressions.go:86-215, non-permissive), on a message described by the facts the code
  reads from its descriptor and content: for each field its proto name, JSON name, list-ness,
  message-ness and the values present (each: plain element, choice wrapper with its chosen
  member, contained resource / Any holding a resource).
  `strcase.ToSnake` is not modelled: the snake form of the requested name is an input
  (computed by the real function in the harness; trusted base).
-/
import FP.Basic
namespace FP.Model
open FP

/-- a value stored under a field, as the step sees it -/
inductive Child where
  | plain (id : Nat)                      -- an ordinary element
  | choice (id : Nat) (chosen : Option Nat) -- a choice wrapper; `chosen` = id of the selected member's value
  | contained (id : Nat) (inner : Option Nat) -- ContainedResource / Any: the resource inside
  | marker (id : Nat)                     -- the extension google/fhir's JSON parser puts on a primitive without a
                                          -- value (`…/primitiveHasNoValue`): proto bookkeeping, not an element
deriving DecidableEq, Repr

structure FieldDesc where
  proto : String
  json : String
  isList : Bool
  isMsg : Bool
  vals : List Child
deriving DecidableEq, Repr

structure MsgDesc where
  name : String
  dateLike : Bool          -- Date / DateTime / Time / Instant
  isReference : Bool
  refString : Option Nat   -- id of the synthesised reference string (none: no reference set)
  primOk : Bool            -- `system.From(message)` succeeds (the message is a FHIR primitive)
  noValue : Bool           -- the message carries the no-value marker: an element with an id or extensions and no value
  fields : List FieldDesc
deriving DecidableEq, Repr

/-- what a step yields for one message -/
inductive Out where
  | node (id : Nat)        -- an element of the input tree (by identity)
  | prim (owner : Nat)     -- the System value of a primitive (`system.From(message)`)
  | synthRef (id : Nat)    -- reference string built from a typed reference
  | synthValue             -- `.value` of a date/time primitive rendered as a string
deriving DecidableEq, Repr

def hiddenDateField (name : String) : Bool := name == "valueUs" || name == "precision" || name == "timezone"

def gateOk (name : String) (dateLike : Bool) : Bool :=
  !(name.toList.contains '_') && (match name.toList with | c :: _ => !c.isUpper | [] => true) &&
  !(dateLike && hiddenDateField name)

def unwrapChild : Child → List Out
  | .plain id => [.node id]
  | .choice id chosen => match chosen with | some c => [.node c] | none => [.node id]
  | .contained _ inner => match inner with | some r => [.node r] | none => []   -- an empty wrapper holds no element
  | .marker _ => []                                                                -- never yielded as an element

/-- where a requested name lands on a message whose fields are `names` (proto name, JSON name) -/
inductive Slot where
  | field (i : Nat)
  | synthRef
  | synthValue
  | invalid
deriving DecidableEq, Repr

def findProto (names : List (String × String)) (p : String) : Option Nat := names.findIdx? (fun n => n.1 == p)
def findJson (names : List (String × String)) (j : String) : Option Nat := names.findIdx? (fun n => n.2 == j)

/-- the lookup order of `FieldExpression.Evaluate`: proto name of the snake-cased request; the
    synthesised `reference` / `value`; the JSON name; the `_value` retry -/
def resolveSlot (names : List (String × String)) (isRef dateLike : Bool) (name snake : String) : Slot :=
  match findProto names snake with
  | some i => .field i
  | none =>
    if snake == "reference" && isRef then .synthRef
    else if snake == "value" && dateLike then .synthValue
    else match findJson names name with
      | some i => .field i
      | none => match findProto names (snake ++ "_value") with
        | some i => .field i
        | none => .invalid

def MsgDesc.names (m : MsgDesc) : List (String × String) := m.fields.map fun f => (f.proto, f.json)

def emit (m : MsgDesc) (selfId : Nat) (f : FieldDesc) : Res (List Out) :=
  if !f.isMsg then (if m.noValue then .ok [] else if m.primOk then .ok [.prim selfId] else .err "cant-be-cast")
  else .ok (f.vals.flatMap unwrapChild)

/-- `FieldExpression.Evaluate` on ONE message (`selfId` = its identity) -/
def fieldStep (name snake : String) (selfId : Nat) (m : MsgDesc) : Res (List Out) :=
  if !gateOk name m.dateLike then .err "invalid-field" else
  match resolveSlot m.names m.isReference m.dateLike name snake with
  | .field i => (match m.fields[i]? with
    | some f => emit m selfId f
    | none => .err "invalid-field")   -- not reachable: the index comes from `names`
  | .synthRef => .ok (match m.refString with | some s => [.synthRef s] | none => [])
  | .synthValue => .ok (if m.noValue then [] else [.synthValue])
  | .invalid => .err "invalid-field"

/-- the step over a whole collection of messages: results concatenated in order; the first error wins -/
def fieldStepAll (name snake : String) : List (Nat × MsgDesc) → Res (List Out)
  | [] => .ok []
  | (id, m) :: rest =>
    match fieldStep name snake id m with
    | .ok out => (match fieldStepAll name snake rest with
      | .ok more => .ok (out ++ more)
      | e => e)
    | .err e => .err e
    | .panic => .panic

end FP.Model
