/-
  FP.Model.Empty — what a table function returns on the EMPTY input collection, derived from
  the regenerated function table and the regenerated guard facts (FP.Gen.ImplGuards), plus the
  documented aggregates' values.
-/
import FP.Gen.FuncTable
import FP.Gen.ImplGuards
namespace FP.Model
open FP.Gen.FuncTable FP.Gen.ImplGuards

/-- the documented aggregates and what they yield on empty input (`none` = depends on arguments / clock) -/
def aggregates : List (String × Option String) := [
  ("exists", some "ok:[B:false]"), ("empty", some "ok:[B:true]"), ("count", some "ok:[I:0]"), ("all", some "ok:[B:true]"),
  ("allTrue", some "ok:[B:true]"), ("anyTrue", some "ok:[B:false]"), ("allFalse", some "ok:[B:true]"), ("anyFalse", some "ok:[B:false]"),
  ("isDistinct", some "ok:[B:true]"), ("iif", none), ("now", none), ("today", none), ("timeOfDay", none)]

def isAggregate (name : String) : Bool := aggregates.any (fun a => a.1 == name)

/-- implementations that have no explicit empty guard but only range over the input -/
def loopOnly : List String :=
  ["impl.Children", "impl.Descendants", "impl.Distinct", "impl.Extension", "impl.Not", "impl.Select", "impl.Where"]

def guardOf (impl : String) : Bool := (guards.find? (fun g => g.1 == impl)).any (fun g => g.2.1)
def rangedOnly (impl : String) : Bool := (guards.find? (fun g => g.1 == impl)).any (fun g => g.2.2)

/-- expected outcome of `{}.name(args…)` (well-formed arguments) -/
def onEmpty (e : Entry) : Option String :=
  if e.impl == "unimplemented" then some "err"
  else match aggregates.find? (fun a => a.1 == e.name) with
    | some a => a.2
    | none => if guardOf e.impl || (loopOnly.contains e.impl && rangedOnly e.impl) then some "ok:[]" else some "unknown"

end FP.Model
