/-
  FP.Model.Value — FHIRPath System values as the evaluator sees them after `system.From`.
-/
import FP.Basic
import FP.Model.Dec
namespace FP.Model

/-- payload of a Date / DateTime / Time value (Go: a `time.Time` plus a layout).
    `comps`: the components `getComponents()` yields on the path that compares component-wise —
    Date [y,m,d] in the value's own location, DateTime [y,mo,d,h,mi,s·10⁹+ns] after `.UTC()`,
    Time [h,mi,s·10⁹+ns];
    `inst`: the instant `time.Equal/Before` compare, as its UTC tuple [y,mo,d,h,mi,s·10⁹+ns]
    (modelling assumption about Go's time package: instants are ordered as these tuples are
    ordered lexicographically);
    `layout`: the Go layout string, whose precision is looked up in the regenerated maps;
    `off`: the zone offset the value was read with (comparison never looks at it; arithmetic and
    rendering are done on the wall-clock reading in that zone). -/
structure Tmp where
  comps : List Int
  inst : List Int
  layout : String
  off : Int := 0                 -- DateTime: the offset of the reading in seconds (kept by arithmetic and rendering)
deriving DecidableEq, Repr

inductive Val where
  | bool (b : Bool)
  | int (i : Int)                -- System.Integer (int32); always within range when produced by the model
  | dec (d : Dec)
  | str (s : List UInt8)         -- Go strings are byte sequences
  | quantity (d : Dec) (unit : List UInt8)
  | date (t : Tmp)
  | dateTime (t : Tmp)
  | time (t : Tmp)
  | other (tag : String)         -- anything the arithmetic/logic core treats opaquely
deriving DecidableEq, Repr

/-- `system.Normalize(from, to)`: implicit Integer→Decimal→Quantity promotion (types.go:143);
    a number is promoted into *the other operand's unit*. -/
def normalize (frm to : Val) : Val :=
  match frm, to with
  | .int i, .dec _ => .dec (Dec.ofInt i)
  | .int i, .quantity _ u => .quantity (Dec.ofInt i) u
  | .dec d, .quantity _ u => .quantity d u
  | .date t, .dateTime _ => .dateTime { t with comps := t.comps ++ [0, 0, 0], layout := t.layout ++ "T" }
  | v, _ => v

end FP.Model
