/-
  FP.Model.Value — FHIRPath System values as the evaluator sees them after `system.From`.
-/
import FP.Basic
import FP.Model.Dec
namespace FP.Model

inductive Val where
  | bool (b : Bool)
  | int (i : Int)                -- System.Integer (int32); always within range when produced by the model
  | dec (d : Dec)
  | str (s : List UInt8)         -- Go strings are byte sequences
  | quantity (d : Dec) (unit : List UInt8)
  | other (tag : String)         -- anything the arithmetic/logic core treats opaquely (temporals are added by FP.Model.Temporal)
deriving DecidableEq, Repr

/-- `system.Normalize(from, to)`: implicit Integer→Decimal→Quantity promotion (types.go:143);
    a number is promoted into *the other operand's unit*. -/
def normalize (frm to : Val) : Val :=
  match frm, to with
  | .int i, .dec _ => .dec (Dec.ofInt i)
  | .int i, .quantity _ u => .quantity (Dec.ofInt i) u
  | .dec d, .quantity _ u => .quantity d u
  | v, _ => v

end FP.Model
