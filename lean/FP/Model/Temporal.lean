/-
  FP.Model.Temporal — the bridge between the three views of a Date / DateTime / Time value:
  the text of a literal (read with the layout lists, FP.Model.Conv / Text), the wall-clock reading
  in its zone (`Wall`, what calendar arithmetic works on, FP.Model.Calendar) and the comparison
  payload (`Tmp`: components after `.UTC()`, the instant, the layout — FP.Model.Compare).
  The harness prints a System value as exactly this payload (harness/temporal.go), so the bridge is
  tied to the code by every `ev` line with a temporal literal.
-/
import FP.Model.Calendar
import FP.Model.Conv
import FP.Model.Value
namespace FP.Model.Temporal
open FP FP.Model FP.Model.Text FP.Model.Calendar FP.Gen.Layouts

def secNs (w : Wall) : Int := w.second * nsPerSec + w.nanos

/-- `t.UTC()`: the same instant read in the zone of offset zero -/
def utcWall (w : Wall) : Wall := addNanos { w with offset := 0 } (-(w.offset * nsPerSec))

/-- the reading of a UTC wall clock in the zone of offset `off` (`t.In(zone)`) -/
def inZone (u : Wall) (off : Int) : Wall := { addNanos u (off * nsPerSec) with offset := off }

def tuple (w : Wall) : List Int := [w.year, w.month, w.day, w.hour, w.minute, secNs w]

def tmpOfDate (l : String) (w : Wall) : Tmp := ⟨[w.year, w.month, w.day], tuple (utcWall w), l, 0⟩
def tmpOfDateTime (l : String) (w : Wall) : Tmp := let u := utcWall w; ⟨tuple u, tuple u, l, w.offset⟩
def tmpOfTime (l : String) (w : Wall) : Tmp := ⟨[w.hour, w.minute, secNs w], tuple (utcWall w), l, 0⟩

def nth (l : List Int) (i : Nat) : Int := l.getD i 0

/-- back from the payload to the reading in the value's own zone -/
def wallOfDate (t : Tmp) : Wall := { Wall.zero with year := nth t.comps 0, month := nth t.comps 1, day := nth t.comps 2 }
def wallOfTime (t : Tmp) : Wall :=
  { Wall.zero with hour := nth t.comps 0, minute := nth t.comps 1, second := nth t.comps 2 / nsPerSec, nanos := nth t.comps 2 % nsPerSec }
def wallOfDateTime (t : Tmp) : Wall :=
  inZone { Wall.zero with year := nth t.comps 0, month := nth t.comps 1, day := nth t.comps 2, hour := nth t.comps 3,
                          minute := nth t.comps 4, second := nth t.comps 5 / nsPerSec, nanos := nth t.comps 5 % nsPerSec } t.off

def ofCV : Conv.CV → Option Val
  | .date l w => some (.date (tmpOfDate l w))
  | .dateTime l w => some (.dateTime (tmpOfDateTime l w))
  | .time l w => some (.time (tmpOfTime l w))
  | _ => none

/-- which of the three literal tokens of the grammar a `@…` text is: TIME starts `@T`, DATETIME
    contains a `T`, DATE is the rest -/
inductive LitKind where | date | dateTime | time
deriving DecidableEq, Repr

def litKind (s : S) : LitKind :=
  match s with
  | '@' :: 'T' :: _ => .time
  | _ => if s.contains 'T' then .dateTime else .date

/-- `VisitDateLiteral` / `VisitDateTimeLiteral` / `VisitTimeLiteral`: `system.ParseDate` … on the token text -/
def literal (src : String) : Option Val :=
  let s := src.toList
  match litKind s with
  | .date => (Conv.parseDate s).bind ofCV
  | .dateTime => (Conv.parseDateTime s).bind ofCV
  | .time => (Conv.parseTime s).bind ofCV

def unitString (u : List UInt8) : Option String := String.fromUTF8? (ByteArray.mk u.toArray)

/-- Date / DateTime / Time ± Quantity (`Date.Add`, `DateTime.Sub`, …): the calendar shift of
    FP.Model.Calendar at the precision of the value's layout; the layout and the zone are kept -/
def shiftVal (sign : Int) (l : Val) (v : Dec) (u : List UInt8) : Res Val :=
  match unitString u with
  | none => .err "UNMODELLED"
  | some unit =>
    match l with
    | .date t =>
      (match precOf dateMap t.layout with
       | none => .err "UNMODELLED"
       | some p => (shiftDate p (wallOfDate t) v unit sign).bind fun w => .ok (.date (tmpOfDate t.layout w)))
    | .dateTime t =>
      (match precOf dateTimeMap t.layout with
       | none => .err "UNMODELLED"
       | some p => (shiftDateTime p (wallOfDateTime t) v unit sign).bind fun w => .ok (.dateTime (tmpOfDateTime t.layout w)))
    | .time t =>
      (match precOf timeMap t.layout with
       | none => .err "UNMODELLED"
       | some p => (shiftTime p (wallOfTime t) v unit sign).bind fun w => .ok (.time (tmpOfTime t.layout w)))
    | _ => .err "ErrTypeMismatch"

end FP.Model.Temporal
