/-
  FP.Model.Coll — hand model of the collection functions (impl/filtering.go, projection.go,
  existence.go, subsetting.go, r4.go) and of the indexer, generic in the item type.
  A criterion is given by what it evaluates to on each item (`Res (List BItem)`), item equality
  (`Collection.Contains`: System equality after `From`, else `proto.Equal`) by a relation `eq`.
-/
import FP.Model.Bool
namespace FP.Model
open FP

variable {α : Type}

/-- `Where`: items whose criterion is a singleton true (empty criterion results are skipped,
    more than one item is an error) -/
def whereFn (crit : α → Res (List BItem)) : List α → Res (List α)
  | [] => .ok []
  | x :: xs =>
    match crit x with
    | .err e => .err e
    | .panic => .panic
    | .ok out =>
      if out.isEmpty then whereFn crit xs else
      match toSingletonBoolean out with
      | .err e => .err e
      | .panic => .panic
      | .ok pass =>
        match whereFn crit xs with
        | .ok rest => .ok (if pass.headD false then x :: rest else rest)
        | e => e

/-- `Exists(criteria)` -/
def existsFn (crit : α → Res (List BItem)) (c : List α) : Res Bool :=
  match whereFn crit c with
  | .ok r => .ok (!r.isEmpty)
  | .err e => .err e
  | .panic => .panic

/-- `All(criteria)`: every item's criterion must be true by `ToBool` (empty is false) -/
def allFn (crit : α → Res (List BItem)) : List α → Res Bool
  | [] => .ok true
  | x :: xs =>
    match crit x with
    | .err e => .err e
    | .panic => .panic
    | .ok out =>
      match toBool out with
      | .err e => .err e
      | .panic => .panic
      | .ok false => .ok false
      | .ok true => allFn crit xs

/-- `Select` without field errors: in-order concatenation -/
def selectFn {β : Type} (proj : α → Res (List β)) : List α → Res (List β)
  | [] => .ok []
  | x :: xs =>
    match proj x with
    | .err e => .err e
    | .panic => .panic
    | .ok out =>
      match selectFn proj xs with
      | .ok rest => .ok (out ++ rest)
      | e => e

def firstFn (c : List α) : List α := match c with | [] => [] | x :: _ => [x]
def lastFn (c : List α) : List α := match c.getLast? with | none => [] | some x => [x]
def tailFn (c : List α) : List α := match c with | [] => [] | _ :: xs => xs

/-- `Skip(n)` for an int32 `n` -/
def skipFn (n : Int) (c : List α) : List α :=
  if c.isEmpty then [] else if n ≤ 0 then c else if n ≥ c.length then [] else c.drop n.toNat

/-- `Take(n)` -/
def takeFn (n : Int) (c : List α) : List α :=
  if c.isEmpty then [] else if n ≤ 0 then [] else if n ≥ c.length then c else c.take n.toNat

/-- `IndexExpression` with an Integer index -/
def indexFn (i : Int) (c : List α) : List α :=
  if i ≥ c.length ∨ i < 0 then [] else (c[i.toNat]?).toList

def countFn (c : List α) : Int := c.length
def emptyFn (c : List α) : Bool := c.isEmpty

/-- `Collection.Contains` -/
def containsFn (eq : α → α → Bool) (c : List α) (x : α) : Bool := c.any (fun y => eq y x)

/-- `Distinct`: keep an item unless the result so far contains an equal one -/
def distinctAux (eq : α → α → Bool) : List α → List α → List α
  | acc, [] => acc.reverse
  | acc, x :: xs => if containsFn eq acc x then distinctAux eq acc xs else distinctAux eq (x :: acc) xs
def distinctFn (eq : α → α → Bool) (c : List α) : List α := distinctAux eq [] c
def isDistinctFn (eq : α → α → Bool) (c : List α) : Bool := (distinctFn eq c).length == c.length

/-- `Intersect`: input items contained in the argument, each equality class once -/
def intersectAux (eq : α → α → Bool) (d : List α) : List α → List α → List α
  | acc, [] => acc.reverse
  | acc, x :: xs =>
    if containsFn eq d x && !containsFn eq acc x then intersectAux eq d (x :: acc) xs else intersectAux eq d acc xs
def intersectFn (eq : α → α → Bool) (c d : List α) : List α := intersectAux eq d [] c

/-- `Exclude` AS IMPLEMENTED: the items of the input not in the argument, followed by the items
    of the argument not in the input (symmetric difference; pinned by TestExclude) -/
def excludeFn (eq : α → α → Bool) (c d : List α) : List α :=
  if c.isEmpty then [] else
  c.filter (fun x => !containsFn eq d x) ++ d.filter (fun x => !containsFn eq c x)

end FP.Model
