/-
  FP.Model.Patch — hand model of the FHIRPatch operations of fhirpath/patch/patch.go on the
  messages the path evaluation located: which message is mutated, how its field changes, and
  which error is reported without a change.  The messages are described by the facts the code
  reads through protoreflect (fields in declaration order, populated or not, list-ness, the
  identities of the stored values and what `unwrapOneof` sees through).  Path evaluation itself
  (the collections `LastResult`, `BeforeLastResult` and the result) is an input; strcase and the
  enum lookup are inputs computed by the real functions.
-/
import FP.Basic
namespace FP.Model.Patch
open FP

/-- a stored message value: its identity and the identity `unwrapOneof` yields for it
    (the chosen member of a choice wrapper, the resource inside a ContainedResource; itself otherwise) -/
structure Slot where
  id : Nat
  unwrapped : Nat
deriving DecidableEq, Repr

structure PField where
  proto : String
  isList : Bool
  isMsg : Bool
  scalarSet : Bool          -- `Has` for a non-message field
  typ : String              -- full name of the field's message type ("" for scalars)
  vals : List Slot
deriving DecidableEq, Repr

def PField.has (f : PField) : Bool := if f.isMsg then !f.vals.isEmpty else f.scalarSet

structure PMsg where
  id : Nat
  fields : List PField
deriving DecidableEq, Repr

/-- an item of a collection: a message (by identity) or a System value -/
inductive Item where
  | msg (id : Nat)
  | sys
deriving DecidableEq, Repr

abbrev Store := List PMsg

def Store.get (s : Store) (id : Nat) : Option PMsg := s.find? (·.id == id)
def Store.put (s : Store) (m : PMsg) : Store := s.map fun x => if x.id == m.id then m else x

inductive Find where
  | found (field : Nat) (pos : Option Nat)
  | notFound
  | abort            -- a populated non-message field was met first: the whole search ends
deriving DecidableEq, Repr

/-- the field scan of `getFieldForCollection` for one target: the first populated field, in
    declaration order, that holds the target (looking through wrappers); a populated non-message
    field met before that ends the search (the `else { return nil, -1, false }` of the loop) -/
def findIn : List PField → Nat → Nat → Find
  | [], _, _ => .notFound
  | f :: rest, i, target =>
    if !f.has then findIn rest (i + 1) target
    else if f.isList then
      match f.vals.findIdx? (fun v => v.unwrapped == target) with
      | some k => .found i (some k)
      | none => findIn rest (i + 1) target
    else if f.isMsg then
      (if (f.vals.head?.map (·.unwrapped)) == some target then .found i none else findIn rest (i + 1) target)
    else .abort

/-- `getFieldForCollection(root, targets)`: targets are tried in order; System values are skipped -/
def findFirst (m : PMsg) : List Item → Option (Nat × Option Nat)
  | [] => none
  | .sys :: rest => findFirst m rest
  | .msg t :: rest =>
    match findIn m.fields 0 t with
    | .found fi k => some (fi, k)
    | .notFound => findFirst m rest
    | .abort => none

def findField (m : PMsg) (target : Item) : Option (Nat × Option Nat) := findFirst m [target]

/-- the first message of a collection in which the target is found -/
def locate (s : Store) : List Item → Item → Option (PMsg × Nat × Option Nat)
  | [], _ => none
  | .sys :: rest, t => locate s rest t
  | .msg id :: rest, t =>
    match s.get id with
    | none => locate s rest t
    | some m => match findField m t with
      | some (fi, k) => some (m, fi, k)
      | none => locate s rest t

def setField (m : PMsg) (fi : Nat) (vals : List Slot) : PMsg :=
  { m with fields := m.fields.mapIdx fun i f => if i == fi then { f with vals := vals } else f }

inductive Err where
  | invalidInput | invalidField | notSingleton | notPatchable | invalidEnum | invalidUnsignedInt | notImplemented | evalError
deriving DecidableEq, Repr

/-- (there is no crash outcome: every path of the modelled code ends in `nil` or an error; a crash
    of the real code shows up as a difference in the correspondence check) -/
inductive Outcome where
  | ok
  | err (e : Err)
deriving DecidableEq, Repr

/-- what the code learns about a destination type T (the located field's element type) for the
    supplied value -/
structure DestFacts where
  wrapper : Bool        -- T has exactly one oneof and it is not `reference` (choice / ContainedResource)
  member : Bool         -- … and one of its members has the value's type
  isEnum : Bool         -- T.value is an enum
  kebabOk : Bool        -- strcase.ToKebab(str) == str
  enumFound : Bool      -- the SCREAMING_SNAKE name is a value of the enum
  refId : Bool          -- T is ReferenceId
  intKind : Nat         -- T.value: 1 int32, 2 uint32, 3 another kind, 0 no value field
deriving DecidableEq, Repr, Inhabited

/-- the supplied value -/
structure ValFacts where
  isNil : Bool
  slot : Slot               -- the value's identity (stored as is when no normalisation applies)
  typ : String              -- full name of its message type
  stringable : Bool
  intable : Bool
  negative : Bool           -- intable and < 0
  fresh : Slot              -- identity of the container / normalised message the code would create
  dest : List (String × DestFacts)   -- per destination type occurring in the described messages
deriving DecidableEq, Repr

def ValFacts.destOf (v : ValFacts) (t : String) : DestFacts :=
  ((v.dest.find? (fun p => p.1 == t)).map (·.2)).getD default

/-- `normalizeAdd` + the descriptor check (or `newSetOneof` for wrappers): the slot to store -/
def prepare (v : ValFacts) (destTyp : String) : Except Outcome Slot :=
  let d := v.destOf destTyp
  if d.wrapper then
    (if d.member then .ok v.fresh else .error (.err .invalidInput))
  else
    let norm : Except Outcome (Option Slot × String) :=
      if v.stringable then
        if d.isEnum then
          (if !d.kebabOk then .error (.err .invalidEnum) else if !d.enumFound then .error (.err .invalidEnum) else .ok (some v.fresh, destTyp))
        else if d.refId then .ok (some v.fresh, destTyp)
        else .ok (none, v.typ)
      else if v.intable then
        match d.intKind with
        | 0 => .ok (none, v.typ)
        | 1 => .ok (some v.fresh, destTyp)
        | 2 => if v.negative then .error (.err .invalidUnsignedInt) else .ok (some v.fresh, destTyp)
        | _ => .ok (none, v.typ)
      else .ok (none, v.typ)
    match norm with
    | .error e => .error e
    | .ok (slot?, typ) =>
      if typ != destTyp then .error (.err .invalidInput) else .ok (slot?.getD v.slot)

/-! ### the operations

Each operation is written as a computation that either fails with an outcome or yields the new
store; `run` turns that into (store afterwards, outcome): a failure keeps the store.  That an
operation of the real code which returns an error has not already written to the resource is
what the correspondence check and the before/after oracle observe. -/

def run (s : Store) (r : Except Outcome Store) : Store × Outcome :=
  match r with
  | .ok s' => (s', .ok)
  | .error e => (s, e)

def lookupAddField (m : PMsg) (snake : String) : Option Nat :=
  match m.fields.findIdx? (fun (f : PField) => f.proto == snake) with
  | some i => some i
  | none => m.fields.findIdx? (fun (f : PField) => f.proto == snake ++ "_value")

/-- `Expression.Add` after evaluation: `result` is the evaluated collection, `snake` the
    snake-cased element name (camelCase gate computed by the real strcase: `camelOk`) -/
def addCore (s : Store) (camelOk : Bool) (resNil : Bool) (v : ValFacts) (evalErr : Bool) (result : List Item) (snake : String) : Except Outcome Store :=
  if !camelOk then .error (.err .invalidField)
  else if resNil then .error (.err .invalidInput)
  else if v.isNil then .error (.err .invalidInput)
  else if evalErr then .error (.err .evalError)
  else match result with
    | [.msg id] =>
      (match s.get id with
      | none => .error (.err .notPatchable)
      | some m =>
        match lookupAddField m snake with
        | none => .error (.err .invalidField)
        | some fi =>
          match m.fields[fi]? with
          | none => .error (.err .invalidField)
          | some f =>
            if !f.isList && f.has then .error (.err .notPatchable)
            else if !f.isMsg then .error (.err .notPatchable)     -- the raw value of a primitive is not an element
            else match prepare v f.typ with
              | .error e => .error e
              | .ok slot => .ok (s.put (setField m fi (f.vals ++ [slot]))))
    | [.sys] => .error (.err .notPatchable)
    | _ => .error (.err .notSingleton)

def addOp (s : Store) (camelOk resNil : Bool) (v : ValFacts) (evalErr : Bool) (result : List Item) (snake : String) : Store × Outcome :=
  run s (addCore s camelOk resNil v evalErr result snake)

def eraseAt (l : List Slot) (k : Nat) : List Slot := l.take k ++ l.drop (k + 1)

/-- `tryDelete` on one collection -/
def tryDelete (s : Store) (coll : List Item) (target : Item) : Option Store :=
  match locate s coll target with
  | none => none
  | some (m, fi, k) =>
    match m.fields[fi]?, k with
    | some f, some k => some (s.put (setField m fi (eraseAt f.vals k)))
    | some _, none => some (s.put (setField m fi []))
    | none, _ => none

/-- `Expression.Delete` -/
def deleteCore (s : Store) (resNil evalErr : Bool) (last beforeLast result : List Item) : Except Outcome Store :=
  if resNil then .error (.err .invalidInput)
  else if evalErr then .error (.err .evalError)
  else match result with
    | [] => .ok s                       -- already absent
    | [t] =>
      (match tryDelete s last t with
      | some s' => .ok s'
      | none => match tryDelete s beforeLast t with
        | some s' => .ok s'
        | none => .error (.err .notPatchable))
    | _ => .error (.err .notSingleton)

def deleteOp (s : Store) (resNil evalErr : Bool) (last beforeLast result : List Item) : Store × Outcome :=
  run s (deleteCore s resNil evalErr last beforeLast result)

def insertAt (l : List Slot) (k : Nat) (x : Slot) : List Slot := l.take k ++ x :: l.drop k

/-- `Expression.Insert` -/
def insertCore (s : Store) (resNil evalErr : Bool) (last result : List Item) (v : ValFacts) (index : Int) : Except Outcome Store :=
  if resNil then .error (.err .invalidInput)
  else if v.isNil then .error (.err .invalidInput)
  else if evalErr then .error (.err .evalError)
  else match last with
    | [.msg id] =>
      (match s.get id with
      | none => .error (.err .notPatchable)
      | some m =>
        match findFirst m result with
        | none => .error (.err .notPatchable)
        | some (fi, _) =>
          match m.fields[fi]? with
          | none => .error (.err .notPatchable)
          | some f =>
            if !f.isList then .error (.err .notPatchable)
            else if index > f.vals.length || index < 0 then .error (.err .notPatchable)
            else if v.typ != f.typ then .error (.err .notPatchable)
            else .ok (s.put (setField m fi (insertAt f.vals index.toNat v.slot))))
    | [.sys] => .error (.err .notPatchable)
    | _ => .error (.err .notSingleton)

def insertOp (s : Store) (resNil evalErr : Bool) (last result : List Item) (v : ValFacts) (index : Int) : Store × Outcome :=
  run s (insertCore s resNil evalErr last result v index)

def replaceAt (l : List Slot) (k : Nat) (x : Slot) : List Slot := l.take k ++ x :: l.drop (k + 1)

/-- `tryReplace` on one collection -/
def tryReplace (s : Store) (coll : List Item) (target : Item) (v : ValFacts) : Except Outcome Store :=
  match locate s coll target with
  | none => .error (.err .notPatchable)
  | some (m, fi, k) =>
    match m.fields[fi]? with
    | none => .error (.err .notPatchable)
    | some f =>
      match prepare v f.typ with
      | .error e => .error e
      | .ok slot =>
        match k with
        | some k => .ok (s.put (setField m fi (replaceAt f.vals k slot)))
        | none => .ok (s.put (setField m fi [slot]))

/-- `Expression.Replace` -/
def replaceCore (s : Store) (resNil evalErr : Bool) (last beforeLast result : List Item) (v : ValFacts) : Except Outcome Store :=
  if resNil then .error (.err .invalidInput)
  else if v.isNil then .error (.err .invalidInput)
  else if evalErr then .error (.err .evalError)
  else match result with
    | [t] =>
      (match tryReplace s last t v with
      | .ok s' => .ok s'
      | .error _ => tryReplace s beforeLast t v)
    | _ => .error (.err .notSingleton)

def replaceOp (s : Store) (resNil evalErr : Bool) (last beforeLast result : List Item) (v : ValFacts) : Store × Outcome :=
  run s (replaceCore s resNil evalErr last beforeLast result v)

/-- `Expression.Move` -/
def moveOp (s : Store) : Store × Outcome := (s, .err .notImplemented)

end FP.Model.Patch
