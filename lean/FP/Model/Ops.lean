/-
  FP.Model.Ops — the operators at collection level (the guards at the top of each
  `Evaluate` in expr/expressions.go): empty operands, singleton checks, then the single-item
  models of FP.Model.Arith / Compare / Types.
-/
import FP.Model.Arith
import FP.Model.Compare
import FP.Model.Coll
namespace FP.Model
open FP

/-- `ArithmeticExpression.Evaluate` on evaluated operands -/
def arithColl (op : ArithOp) (l r : List Val) : Res (List Val) :=
  if l.isEmpty || r.isEmpty then .ok [] else
  match l, r with
  | [a], [b] => arithExpr op a b
  | _, _ => .err "not-singleton"

/-- `NegationExpression.Evaluate` -/
def negColl (c : List Val) : Res (List Val) :=
  match c with
  | [] => .ok []
  | [v] => negate v
  | _ => .err "not-singleton"

/-- `ConcatExpression.Evaluate`: empty is the empty string -/
def concatColl (l r : List Val) : Res (List Val) :=
  let l' := if l.isEmpty then [Val.str []] else l
  let r' := if r.isEmpty then [Val.str []] else r
  match l', r' with
  | [.str a], [.str b] => .ok [.str (a ++ b)]
  | [_], [_] => .err "ErrInvalidType"
  | _, _ => .err "not-singleton"

/-- `IsExpression` / `AsExpression` shape: empty → empty, more than one item → error -/
def typeOpColl {α : Type} (f : α → List α) (c : List α) : Res (List α) :=
  match c with
  | [] => .ok []
  | [x] => .ok (f x)
  | _ => .err "not-singleton"

/-- `IndexExpression.Evaluate`: the index operand evaluated to `idx` -/
def indexColl {α : Type} (idx : List Val) (input : List α) : Res (List α) :=
  match idx with
  | [] => .ok []
  | [.int i] => .ok (indexFn i input)
  | [_] => .err "ErrInvalidType"
  | _ => .err "not-singleton"

end FP.Model
