/-
  FP.Model.Syntax — lexer and parser model of fhirpath.g4 (the ANTLR grammar the repository's parser
  is generated from), a printer of expression trees with minimal and with full parenthesisation,
  and the tree the visitor builds.  The left-recursive `expression` rule is modelled as the
  equivalent stratified grammar (one level per alternative, left-associative loops; the prefix
  polarity alternative binds tighter than every binary operator and looser than the postfix
  invocation / indexer).  The operator levels are regenerated from the grammar file
  (FP.Gen.Grammar).  Hand model of ANTLR's behaviour on this grammar (trusted), tied by the
  correspondence check on the compiled trees.
-/
import FP.Basic
import FP.Gen.Grammar
namespace FP.Model.Syntax
open FP

inductive Tok where
  | num (s : String)
  | str (s : String)        -- source text between the quotes (escapes undecoded)
  | ident (s : String)
  | delim (s : String)      -- back-ticked identifier, text between the back-ticks
  | temporal (s : String)   -- @… literal, source text
  | kw (s : String)         -- keyword or symbol
  | bad (s : String)        -- a character no token starts with
deriving DecidableEq, Repr

/-! ### lexer -/

def isDigitC (c : Char) : Bool := decide (48 ≤ c.toNat) && decide (c.toNat ≤ 57)
def isIdStart (c : Char) : Bool := c.isAlpha || c == '_'
def isIdChar (c : Char) : Bool := c.isAlphanum || c == '_'
def isWs (c : Char) : Bool := c == ' ' || c == '\r' || c == '\n' || c == '\t'

/-- implicit tokens of the grammar that look like identifiers -/
def wordKeywords : List String :=
  ["div", "mod", "is", "as", "in", "contains", "and", "or", "xor", "implies", "true", "false",
   "year", "month", "week", "day", "hour", "minute", "second", "millisecond",
   "years", "months", "weeks", "days", "hours", "minutes", "seconds", "milliseconds"]

def takeDigits (n : Nat) (s : List Char) : Option (List Char × List Char) :=
  if (s.take n).length == n && (s.take n).all isDigitC then some (s.take n, s.drop n) else none

/-- DATEFORMAT: dddd ('-' dd ('-' dd)?)? -/
def lexDateFormat (s : List Char) : Option (List Char × List Char) := do
  let (y, r) ← takeDigits 4 s
  match r with
  | '-' :: r1 =>
    match takeDigits 2 r1 with
    | some (m, r2) =>
      match r2 with
      | '-' :: r3 =>
        match takeDigits 2 r3 with
        | some (d, r4) => pure (y ++ '-' :: m ++ '-' :: d, r4)
        | none => pure (y ++ '-' :: m, r2)
      | _ => pure (y ++ '-' :: m, r2)
    | none => pure (y, r)
  | _ => pure (y, r)

/-- TIMEFORMAT: dd (':' dd (':' dd ('.' d+)?)?)? -/
def lexTimeFormat (s : List Char) : Option (List Char × List Char) := do
  let (h, r) ← takeDigits 2 s
  match r with
  | ':' :: r1 =>
    match takeDigits 2 r1 with
    | some (m, r2) =>
      match r2 with
      | ':' :: r3 =>
        match takeDigits 2 r3 with
        | some (sec, r4) =>
          match r4 with
          | '.' :: r5 =>
            let fr := r5.takeWhile isDigitC
            if fr.isEmpty then pure (h ++ ':' :: m ++ ':' :: sec, r4)
            else pure (h ++ ':' :: m ++ ':' :: sec ++ '.' :: fr, r5.drop fr.length)
          | _ => pure (h ++ ':' :: m ++ ':' :: sec, r4)
        | none => pure (h ++ ':' :: m, r2)
      | _ => pure (h ++ ':' :: m, r2)
    | none => pure (h, r)
  | _ => pure (h, r)

def lexTz (s : List Char) : List Char × List Char :=
  match s with
  | 'Z' :: r => (['Z'], r)
  | sg :: r =>
    if sg == '+' || sg == '-' then
      match takeDigits 2 r with
      | some (h, r1) =>
        match r1 with
        | ':' :: r2 =>
          match takeDigits 2 r2 with
          | some (m, r3) => (sg :: h ++ ':' :: m, r3)
          | none => ([], s)
        | _ => ([], s)
      | none => ([], s)
    else ([], s)
  | [] => ([], s)

/-- after '@': DATE | DATETIME | TIME (longest match) -/
def lexTemporal (s : List Char) : Option (List Char × List Char) :=
  match s with
  | 'T' :: r => (lexTimeFormat r).map fun (t, r') => ('T' :: t, r')
  | _ =>
    match lexDateFormat s with
    | none => none
    | some (d, r) =>
      match r with
      | 'T' :: r1 =>
        match lexTimeFormat r1 with
        | some (t, r2) => let (z, r3) := lexTz r2; some (d ++ 'T' :: t ++ z, r3)
        | none => some (d ++ ['T'], r1)
      | _ => some (d, r)

/-- body of a quoted token up to the closing quote `q` (escapes keep the next character) -/
def lexQuoted (q : Char) : List Char → List Char → Option (List Char × List Char)
  | [], _ => none
  | c :: r, acc =>
    if c == q then some (acc.reverse, r)
    else if c == '\\' then
      match r with
      | e :: r' => lexQuoted q r' (e :: c :: acc)
      | [] => none
    else lexQuoted q r (c :: acc)

def symbols2 : List String := ["<=", ">=", "!=", "!~"]
def symbols1 : List Char := ['+', '-', '*', '/', '&', '|', '<', '>', '=', '~', '.', '[', ']', '(', ')', ',', '{', '}', '%']

def hasClose : List Char → Bool
  | '*' :: '/' :: _ => true
  | _ :: y => hasClose y
  | [] => false

def skipClose : Nat → List Char → List Char
  | 0, x => x
  | n + 1, x => match x with
    | '*' :: '/' :: y => y
    | _ :: y => skipClose n y
    | [] => []

/-- the token stream (hidden-channel tokens dropped); fuel = remaining characters -/
def lexAux : Nat → List Char → List Tok → List Tok
  | 0, _, acc => acc.reverse
  | fuel + 1, s, acc =>
    match s with
    | [] => acc.reverse
    | c :: r =>
      if isWs c then lexAux fuel r acc
      else if c == '/' && r.head? == some '*' && hasClose (r.drop 1) then
        -- block comment: up to the first "*/" (an unterminated "/*" is not a comment: '/' then '*')
        lexAux fuel (skipClose r.length (r.drop 1)) acc
      else if c == '/' && r.head? == some '/' then
        lexAux fuel (r.dropWhile fun x => !(x == '\r' || x == '\n')) acc
      else if c == '\'' then
        match lexQuoted '\'' r [] with
        | some (b, r') => lexAux fuel r' (.str (String.ofList b) :: acc)
        | none => lexAux fuel r (.bad "'" :: acc)
      else if c == '`' then
        match lexQuoted '`' r [] with
        | some (b, r') => lexAux fuel r' (.delim (String.ofList b) :: acc)
        | none => lexAux fuel r (.bad "`" :: acc)
      else if c == '@' then
        match lexTemporal r with
        | some (t, r') => lexAux fuel r' (.temporal (String.ofList ('@' :: t)) :: acc)
        | none => lexAux fuel r (.bad "@" :: acc)
      else if c == '$' then
        -- '$this' | '$index' | '$total' are literal tokens: they end after their last letter
        -- whatever follows (`$thiscontains` is `$this` `contains`)
        if "this".toList.isPrefixOf r then lexAux fuel (r.drop 4) (.kw "$this" :: acc)
        else if "index".toList.isPrefixOf r then lexAux fuel (r.drop 5) (.kw "$index" :: acc)
        else if "total".toList.isPrefixOf r then lexAux fuel (r.drop 5) (.kw "$total" :: acc)
        else lexAux fuel r (.bad "$" :: acc)
      else if isDigitC c then
        let ds := s.takeWhile isDigitC
        let r1 := s.drop ds.length
        match r1 with
        | '.' :: r2 =>
          let fs := r2.takeWhile isDigitC
          if fs.isEmpty then lexAux fuel r1 (.num (String.ofList ds) :: acc)
          else lexAux fuel (r2.drop fs.length) (.num (String.ofList (ds ++ '.' :: fs)) :: acc)
        | _ => lexAux fuel r1 (.num (String.ofList ds) :: acc)
      else if isIdStart c then
        let w := s.takeWhile isIdChar
        let ws := String.ofList w
        lexAux fuel (s.drop w.length) ((if wordKeywords.contains ws then .kw ws else .ident ws) :: acc)
      else
        let two := String.ofList (s.take 2)
        if symbols2.contains two then lexAux fuel (s.drop 2) (.kw two :: acc)
        else if symbols1.contains c then lexAux fuel r (.kw (String.singleton c) :: acc)
        else lexAux fuel r (.bad (String.singleton c) :: acc)

def lex (s : String) : List Tok := lexAux (s.length + 1) s.toList []

/-! ### trees -/

inductive Ex where
  | lit (t : Tok)
  | qty (n : String) (u : Tok)
  | ext (name : String)
  | special (s : String)                 -- $this / $index / $total
  | member (name : String)
  | call (name : String) (args : Ex)     -- args: argNil / argCons chain
  | argNil
  | argCons (e : Ex) (rest : Ex)
  | dot (e : Ex) (inv : Ex)
  | idx (e i : Ex)
  | pol (op : String) (e : Ex)
  | bin (op : String) (l r : Ex)
  | typ (op : String) (e : Ex) (t : List String)
deriving DecidableEq, Repr

open FP.Gen.Grammar

/-- binary levels, loosest first, as (operators, isTypeLevel), from the regenerated grammar table -/
def binLevels : List (List String × Bool) := levels

def isIdentTok : Tok → Option String
  | .ident s => some s
  | .delim s => some ("`" ++ s ++ "`")     -- the token text, back-ticks included
  | .kw s => if s == "as" || s == "contains" || s == "in" || s == "is" then some s else none
  | _ => none

def unitKeywords : List String :=
  ["year", "month", "week", "day", "hour", "minute", "second", "millisecond",
   "years", "months", "weeks", "days", "hours", "minutes", "seconds", "milliseconds"]

abbrev Parser := List Tok → Option (Ex × List Tok)

/-- qualifiedIdentifier: identifier ('.' identifier)*; k bounds the number of components -/
def startsParen : List Tok → Bool
  | .kw "(" :: _ => true
  | _ => false

def qualified : Nat → List Tok → Option (List String × List Tok)
  | 0, _ => none
  | k + 1, ts =>
    match ts with
    | t :: r =>
      match isIdentTok t with
      | none => none
      | some n =>
        match r with
        | .kw "." :: t2 :: r2 =>
          -- `. identifier (` is a function invocation on the typed expression, not a further
          -- component of the type name (ANTLR's lookahead leaves the loop there)
          if (isIdentTok t2).isSome && !startsParen r2 then
            match qualified k (t2 :: r2) with
            | some (q, r3) => some (n :: q, r3)
            | none => none
          else some ([n], r)
        | _ => some ([n], r)
    | [] => none

/-- what follows an operator token at some level: a parser for the right-hand side that yields how
    to extend the left operand -/
abbrev Step := String → Option (List Tok → Option ((Ex → Ex) × List Tok))

/-- the `(op rhs)*` loop shared by every level; k bounds the iterations -/
def loopG (step : Step) : Nat → Ex → List Tok → Option (Ex × List Tok)
  | 0, left, ts =>
    (match ts with
    | .kw o :: _ => if (step o).isSome then none else some (left, ts)
    | _ => some (left, ts))
  | k + 1, left, ts =>
    match ts with
    | .kw o :: r =>
      (match step o with
      | some rhs =>
        (match rhs r with
        | some (build, r') => loopG step k (build left) r'
        | none => none)
      | none => some (left, ts))
    | _ => some (left, ts)

/-- one level: operand (op rhs)*, left-associative -/
def levelG (step : Step) (next : Parser) : Parser := fun ts =>
  match next ts with
  | some (x, r) => loopG step r.length x r
  | none => none

def binRhs (o : String) (next : Parser) : List Tok → Option ((Ex → Ex) × List Tok) := fun r =>
  (next r).map fun p => (fun left => .bin o left p.1, p.2)

/-- a builder parser: what the tokens make of any left operand, and the tokens left over -/
abbrev Cont := List Tok → Option ((Ex → Ex) × List Tok)

/-- the `(op rhs)*` loop as a builder on the left operand (same iterations as `loopG`) -/
def loopB (step : Step) : Nat → Cont
  | 0, ts =>
    (match ts with
    | .kw o :: _ => if (step o).isSome then none else some (id, ts)
    | _ => some (id, ts))
  | k + 1, ts =>
    match ts with
    | .kw o :: r =>
      (match step o with
      | some rhs =>
        (match rhs r with
        | some (build, r') => (loopB step k r').map fun p => (p.1 ∘ build, p.2)
        | none => none)
      | none => some (id, ts))
    | _ => some (id, ts)

/-- a type operator is a *suffix*: after `left is T` ANTLR's precedence loop goes on with any
    operator at least as tight as the level the rule was entered with — in particular with the
    operators tighter than `is`, which take `left is T` as their left operand
    (`x is T * y` is `(x is T) * y`).  `cont` is that continuation: the loops of all tighter levels -/
def typRhs (o : String) (cont : Cont) : List Tok → Option ((Ex → Ex) × List Tok) := fun r =>
  match qualified r.length r with
  | none => none
  | some (q, r1) => (cont r1).map fun p => (fun left => p.1 (.typ o left q), p.2)

/-- binary level: the right-hand side is an operand of the next tighter level -/
def stepBin (ops : List String) (next : Parser) : Step := fun o =>
  if ops.contains o then some (binRhs o next) else none

/-- type level: the right-hand side is a qualified identifier, then the tighter loops -/
def stepTyp (ops : List String) (cont : Cont) : Step := fun o =>
  if ops.contains o then some (typRhs o cont) else none

def levelBin (ops : List String) (next : Parser) : Parser := levelG (stepBin ops next) next
def levelTyp (ops : List String) (next : Parser) (cont : Cont) : Parser := levelG (stepTyp ops cont) next

/-- the loops of a level after those of the tighter levels, as one builder -/
def contThen (inner : Cont) (step : Step) : Cont := fun ts =>
  match inner ts with
  | none => none
  | some (b1, r1) => (loopB step r1.length r1).map fun p => (p.1 ∘ b1, p.2)

/-- polarity: ('+' | '-')* operand; k bounds the number of signs -/
def unary (post : Parser) : Nat → Parser
  | 0 => fun _ => none
  | k + 1 => fun ts =>
    match ts with
    | .kw "+" :: r => (unary post k r).map fun p => (.pol "+" p.1, p.2)
    | .kw "-" :: r => (unary post k r).map fun p => (.pol "-" p.1, p.2)
    | _ => post ts

/-- expression (',' expression)* -/
def argsP (e : Parser) : Nat → List Tok → Option (Ex × List Tok)
  | 0, _ => none
  | k + 1, ts =>
    match e ts with
    | none => none
    | some (x, .kw "," :: r) =>
      (match argsP e k r with
      | some (rest, r') => some (.argCons x rest, r')
      | none => none)
    | some (x, r) => some (.argCons x .argNil, r)

/-- invocation: identifier | function | $this | $index | $total -/
def invocationP (e : Parser) : Parser := fun ts =>
  match ts with
  | .kw "$this" :: r => some (.special "$this", r)
  | .kw "$index" :: r => some (.special "$index", r)
  | .kw "$total" :: r => some (.special "$total", r)
  | t :: r =>
    match isIdentTok t with
    | none => none
    | some n =>
      match r with
      | .kw "(" :: .kw ")" :: r2 => some (.call n .argNil, r2)
      | .kw "(" :: r1 =>
        (match argsP e r1.length r1 with
        | some (as, .kw ")" :: r2) => some (.call n as, r2)
        | _ => none)
      | _ => some (.member n, r)
  | [] => none

def termP (e : Parser) : Parser := fun ts =>
  match ts with
  | .kw "(" :: r =>
    (match e r with
    | some (x, .kw ")" :: r') => some (x, r')
    | _ => none)
  | .kw "{" :: .kw "}" :: r => some (.lit (.kw "{}"), r)
  | .kw "true" :: r => some (.lit (.kw "true"), r)
  | .kw "false" :: r => some (.lit (.kw "false"), r)
  | .str s :: r => some (.lit (.str s), r)
  | .temporal s :: r => some (.lit (.temporal s), r)
  | .num n :: r =>
    -- quantity: NUMBER unit?
    (match r with
    | .kw u :: r' => if unitKeywords.contains u then some (.qty n (.kw u), r') else some (.lit (.num n), r)
    | .str u :: r' => some (.qty n (.str u), r')
    | _ => some (.lit (.num n), r))
  | .kw "%" :: t :: r =>
    (match isIdentTok t, t with
    | some n, _ => some (.ext n, r)
    | none, .str s => some (.ext ("'" ++ s ++ "'"), r)
    | none, _ => none)
  | _ => invocationP e ts

def dotRhs (e : Parser) : List Tok → Option ((Ex → Ex) × List Tok) := fun r =>
  (invocationP e r).map fun p => (fun left => .dot left p.1, p.2)

def idxRhs (e : Parser) : List Tok → Option ((Ex → Ex) × List Tok) := fun r =>
  match e r with
  | some (i, .kw "]" :: r') => some (fun left => .idx left i, r')
  | _ => none

/-- postfix level: '.' invocation | '[' expression ']' -/
def stepPostfix (e : Parser) : Step := fun o =>
  if o == "." then some (dotRhs e) else if o == "[" then some (idxRhs e) else none

def postfixP (e : Parser) : Parser := levelG (stepPostfix e) (termP e)

def unaryP (e : Parser) : Parser := fun ts => unary (postfixP e) ts.length ts

/-- a level: the parser `operand (op rhs)*`, and the loops of this and all tighter levels as a
    builder (what may follow a suffix operator of a looser level) -/
structure Lv where
  parser : Parser
  cont : Cont

def levelStep (lvl : List String × Bool) (inner : Lv) : Step :=
  if lvl.2 then stepTyp lvl.1 inner.cont else stepBin lvl.1 inner.parser

/-- the levels above a nested-expression parser: binary levels (loosest outermost) around polarity
    around postfix around term -/
def levelsL (lvls : List (List String × Bool)) (e : Parser) : Lv :=
  lvls.foldr (fun lvl inner =>
      { parser := levelG (levelStep lvl inner) inner.parser, cont := contThen inner.cont (levelStep lvl inner) })
    { parser := unaryP e, cont := fun ts => loopB (stepPostfix e) ts.length ts }

def levelsP (lvls : List (List String × Bool)) (e : Parser) : Parser := (levelsL lvls e).parser

/-- the `expression` rule; the fuel bounds the nesting of parentheses, indexers and arguments -/
def exprP : Nat → Parser
  | 0 => fun _ => none
  | f + 1 => levelsP binLevels (exprP f)

/-- `prog : expression EOF` -/
def parseProg (ts : List Tok) : Option Ex :=
  match exprP (2 * ts.length + 2) ts with
  | some (e, []) => some e
  | _ => none

def parse (s : String) : Option Ex :=
  let ts := lex s
  if ts.any (fun t => match t with | .bad _ => true | _ => false) then none else parseProg ts

end FP.Model.Syntax
