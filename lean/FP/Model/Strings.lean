/-
  FP.Model.Strings — hand model of impl/strings.go on a single string receiver, over Unicode
  characters (`List Char`).  Go library behaviour assumed (trusted base, validated by the
  correspondence): `strings.Index/HasPrefix/HasSuffix/Contains/ReplaceAll/Split(s, "")`,
  `[]rune(s)` on valid UTF-8.
-/
import FP.Basic
namespace FP.Model
open FP

abbrev Str := List Char

def isPrefix : Str → Str → Bool
  | [], _ => true
  | _ :: _, [] => false
  | p :: ps, c :: cs => p == c && isPrefix ps cs

/-- `strings.Index` in characters: first position where `t` starts; -1 if none -/
def indexOfAux (t : Str) : Str → Nat → Int
  | [], i => if t.isEmpty then i else -1
  | c :: cs, i => if isPrefix t (c :: cs) then i else indexOfAux t cs (i + 1)
def indexOf (s t : Str) : Int := indexOfAux t s 0

def containsStr (s t : Str) : Bool := indexOf s t ≥ 0
def startsWith (s t : Str) : Bool := isPrefix t s
def endsWith (s t : Str) : Bool := isPrefix t.reverse s.reverse
def lengthFn (s : Str) : Int := s.length

/-- `Substring(start[, length])`: `len = none` when the argument is absent.
    Out-of-range start (negative or ≥ length) gives empty. -/
def substring (s : Str) (start : Int) (len : Option Int) : Option Str :=
  if start < 0 ∨ start ≥ s.length then none else
  let rest := s.drop start.toNat
  match len with
  | none => some rest
  | some l => if l > -1 ∧ start + l < s.length then some (rest.take l.toNat) else some rest

/-- `toChars()`: one item per character; the empty string gives the empty collection -/
def toChars (s : Str) : List Str := s.map (fun c => [c])

/-- `strings.ReplaceAll` with a non-empty pattern: leftmost, non-overlapping matches;
    `skip` counts characters of the current match still to drop -/
def replaceGo (p r : Str) : Nat → Str → Str
  | _, [] => []
  | skip + 1, _ :: cs => replaceGo p r skip cs
  | 0, c :: cs =>
    if isPrefix p (c :: cs) then r ++ replaceGo p r (p.length - 1) cs else c :: replaceGo p r 0 cs

/-- `strings.ReplaceAll(s, old, new)`; an empty `old` matches before every character and at the end -/
def replaceAll (s p r : Str) : Str :=
  if p.isEmpty then r ++ s.flatMap (fun c => c :: r) else replaceGo p r 0 s

def mapChars (m : List (Char × Str)) (s : Str) : Str :=
  s.flatMap fun c => match m.find? (fun e => e.1 == c) with | some e => e.2 | none => [c]

end FP.Model
