/-
  FP.Ref.N1 — the FHIRPath N1 (normative) function list with the argument counts the
  specification allows, written out once, independent of the code
  (https://hl7.org/fhirpath/N1/, sections 5 and 6.3; plus FHIR R4's `extension(url)`).
-/
namespace FP.Ref

structure Spec where
  name : String
  arities : List Nat
deriving DecidableEq, Repr

def n1 : List Spec := [
  -- 5.1 existence
  ⟨"empty", [0]⟩, ⟨"exists", [0, 1]⟩, ⟨"all", [1]⟩, ⟨"allTrue", [0]⟩, ⟨"anyTrue", [0]⟩, ⟨"allFalse", [0]⟩, ⟨"anyFalse", [0]⟩,
  ⟨"subsetOf", [1]⟩, ⟨"supersetOf", [1]⟩, ⟨"count", [0]⟩, ⟨"distinct", [0]⟩, ⟨"isDistinct", [0]⟩,
  -- 5.2 filtering and projection
  ⟨"where", [1]⟩, ⟨"select", [1]⟩, ⟨"repeat", [1]⟩, ⟨"ofType", [1]⟩,
  -- 5.3 subsetting
  ⟨"single", [0]⟩, ⟨"first", [0]⟩, ⟨"last", [0]⟩, ⟨"tail", [0]⟩, ⟨"skip", [1]⟩, ⟨"take", [1]⟩, ⟨"intersect", [1]⟩, ⟨"exclude", [1]⟩,
  -- 5.4 combining
  ⟨"union", [1]⟩, ⟨"combine", [1]⟩,
  -- 5.5 conversion
  ⟨"iif", [2, 3]⟩,
  ⟨"toBoolean", [0]⟩, ⟨"convertsToBoolean", [0]⟩, ⟨"toInteger", [0]⟩, ⟨"convertsToInteger", [0]⟩,
  ⟨"toDate", [0]⟩, ⟨"convertsToDate", [0]⟩, ⟨"toDateTime", [0]⟩, ⟨"convertsToDateTime", [0]⟩,
  ⟨"toDecimal", [0]⟩, ⟨"convertsToDecimal", [0]⟩, ⟨"toQuantity", [0, 1]⟩, ⟨"convertsToQuantity", [0, 1]⟩,
  ⟨"toString", [0]⟩, ⟨"convertsToString", [0]⟩, ⟨"toTime", [0]⟩, ⟨"convertsToTime", [0]⟩,
  -- 5.6 string manipulation
  ⟨"indexOf", [1]⟩, ⟨"substring", [1, 2]⟩, ⟨"startsWith", [1]⟩, ⟨"endsWith", [1]⟩, ⟨"contains", [1]⟩, ⟨"upper", [0]⟩, ⟨"lower", [0]⟩,
  ⟨"replace", [2]⟩, ⟨"matches", [1]⟩, ⟨"replaceMatches", [2]⟩, ⟨"length", [0]⟩, ⟨"toChars", [0]⟩,
  -- 5.7 math
  ⟨"abs", [0]⟩, ⟨"ceiling", [0]⟩, ⟨"exp", [0]⟩, ⟨"floor", [0]⟩, ⟨"ln", [0]⟩, ⟨"log", [1]⟩, ⟨"power", [1]⟩, ⟨"round", [0, 1]⟩,
  ⟨"sqrt", [0]⟩, ⟨"truncate", [0]⟩,
  -- 5.8 tree navigation
  ⟨"children", [0]⟩, ⟨"descendants", [0]⟩,
  -- 5.9 utility
  ⟨"trace", [1, 2]⟩, ⟨"now", [0]⟩, ⟨"timeOfDay", [0]⟩, ⟨"today", [0]⟩,
  -- 6.5
  ⟨"not", [0]⟩,
  -- FHIR R4 additional function
  ⟨"extension", [1]⟩
]

/-- functions beyond N1 that the experimental table offers, with the argument counts of the current
    FHIRPath build (`join([separator])`) -/
def experimentalSpec : List Spec := [⟨"join", [0, 1]⟩]

/-- Go identifier of the implementation of a specification name: `impl.` ++ capitalised name -/
def implName (n : String) : String :=
  match n.toList with
  | [] => "impl."
  | c :: cs => "impl." ++ String.ofList (c.toUpper :: cs)

end FP.Ref
