/-
  FP.Ref.Types — the R4 type hierarchy, NOT copied from the code: derived from structural
  facts of the compiled descriptors (FP.Gen.Schema: structure-definition kind, presence of
  `modifierExtension` ⇒ BackboneElement, presence of `contained` ⇒ DomainResource) plus the
  short lists the property itself spells out (primitive specialisations, Quantity profiles).
-/
import FP.Gen.Schema
namespace FP.Ref
open FP.Gen.Schema

def stringLike : List String := ["code", "id", "markdown"]
def integerLike : List String := ["positiveInt", "unsignedInt"]
def uriLike : List String := ["url", "canonical", "uuid", "oid"]
def quantityProfiles : List String := ["Duration", "MoneyQuantity", "Age", "Count", "Distance", "SimpleQuantity"]
def primitives : List String := ["instant", "time", "date", "dateTime", "base64Binary", "decimal", "boolean", "url", "code",
  "string", "integer", "uri", "canonical", "markdown", "id", "oid", "uuid", "unsignedInt", "positiveInt"]

/-- parent of a FHIR type name in the R4 hierarchy (`none` for the roots Element and Resource) -/
def parentOf (n : String) : Option String :=
  if n == "Element" || n == "Resource" then none
  else if n == "DomainResource" then some "Resource"
  else if n == "BackboneElement" then some "Element"
  else if stringLike.contains n then some "string"
  else if integerLike.contains n then some "integer"
  else if uriLike.contains n then some "uri"
  else if primitives.contains n then some "Element"
  else if quantityProfiles.contains n then some "Quantity"
  else match resourceTypes.find? (fun r => r.name == n) with
    | some r => if r.hasContained then some "DomainResource" else some "Resource"
    | none => match elementTypes.find? (fun r => r.name == n) with
      | some r => if r.hasModExt then some "BackboneElement" else some "Element"
      | none => none

def derivesFuel : Nat → String → String → Bool
  | 0, _, _ => false
  | k + 1, a, b => a == b || (match parentOf a with | some p => derivesFuel k p b | none => false)

/-- `a` is `b` or derives from `b` -/
def derives (a b : String) : Bool := derivesFuel 8 a b

/-- every FHIR type name a specifier can denote: registered datatypes (complex ones by their
    own name, primitives by their lower-case name), resources, and the abstract bases -/
def complexNames : List String := (elementTypes.filter (fun r => r.kind != "primitive")).map (·.name)
def fhirTypeNames : List String :=
  primitives ++ complexNames ++ resourceTypes.map (·.name) ++ ["Element", "BackboneElement", "Resource", "DomainResource"]

end FP.Ref
