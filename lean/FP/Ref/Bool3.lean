/-
  FP.Ref.Bool3 — the FHIRPath N1 truth tables (section 6.5), written out row by row,
  independent of the code.  `none` is the empty collection.
-/
import FP.Basic
namespace FP.Ref

def and3 : Tri → Tri → Tri
  | some true,  some true  => some true
  | some true,  some false => some false
  | some true,  none       => none
  | some false, some true  => some false
  | some false, some false => some false
  | some false, none       => some false
  | none,       some true  => none
  | none,       some false => some false
  | none,       none       => none

def or3 : Tri → Tri → Tri
  | some true,  some true  => some true
  | some true,  some false => some true
  | some true,  none       => some true
  | some false, some true  => some true
  | some false, some false => some false
  | some false, none       => none
  | none,       some true  => some true
  | none,       some false => none
  | none,       none       => none

def xor3 : Tri → Tri → Tri
  | some true,  some true  => some false
  | some true,  some false => some true
  | some false, some true  => some true
  | some false, some false => some false
  | _,          _          => none

def implies3 : Tri → Tri → Tri
  | some true,  some true  => some true
  | some true,  some false => some false
  | some true,  none       => none
  | some false, _          => some true
  | none,       some true  => some true
  | none,       some false => none
  | none,       none       => none

def not3 : Tri → Tri
  | some b => some (!b)
  | none => none


/-- what a FHIRPath operand *means* as a truth value: empty = unknown, a Boolean = itself,
    any other single item = true, more than one item = not a truth value.  Items are given
    as `some b` (a Boolean) or `none` (anything else). -/
def meaningOf : List (Option Bool) → Option Tri
  | [] => some none
  | [some b] => some (some b)
  | [none] => some (some true)
  | _ :: _ :: _ => none

end FP.Ref
