/- FP.Ref.IntKinds — value ranges of Go's twelve integer kinds (64-bit platform), written out. -/
namespace FP.Ref

def intKinds : List String :=
  ["int", "int8", "int16", "int32", "int64", "uint", "uint8", "uint16", "uint32", "uint64", "uintptr"]

def kindRange : String → Int × Int
  | "int8" => (-128, 127)
  | "int16" => (-32768, 32767)
  | "int32" => (-2147483648, 2147483647)
  | "int64" => (-9223372036854775808, 9223372036854775807)
  | "int" => (-9223372036854775808, 9223372036854775807)
  | "uint8" => (0, 255)
  | "uint16" => (0, 65535)
  | "uint32" => (0, 4294967295)
  | "uint64" => (0, 18446744073709551615)
  | "uint" => (0, 18446744073709551615)
  | "uintptr" => (0, 18446744073709551615)
  | _ => (0, -1)

def kindSigned (k : String) : Bool := k.startsWith "int"

def representable (to : String) (v : Int) : Bool :=
  decide ((kindRange to).1 ≤ v ∧ v ≤ (kindRange to).2)

end FP.Ref
