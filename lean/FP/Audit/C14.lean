import FP.Props.C14
#print axioms FP.Props.C14.toChars_count_eq_length
#print axioms FP.Props.C14.toChars_concat
#print axioms FP.Props.C14.substring_out_of_range
#print axioms FP.Props.C14.substring_split
#print axioms FP.Props.C14.substring_spec
#print axioms FP.Props.C14.isPrefix_append
#print axioms FP.Props.C14.isPrefix_iff
#print axioms FP.Props.C14.startsWith_spec
#print axioms FP.Props.C14.endsWith_spec
#print axioms FP.Props.C14.indexOfAux_sound
#print axioms FP.Props.C14.indexOf_sound
#print axioms FP.Props.C14.contains_iff_indexOf
#print axioms FP.Props.C14.replaceGo_no_match
#print axioms FP.Props.C14.replaceGo_skip
#print axioms FP.Props.C14.replace_self
