import FP.Props.C20
#print axioms FP.Props.C20.toSnake_names_contained_field
#print axioms FP.Props.C20.every_resource_has_field
#print axioms FP.Props.C20.every_field_is_registered
#print axioms FP.Props.C20.extension_names_field
#print axioms FP.Props.C20.wrap_unwrap
#print axioms FP.Props.C20.wrap_never_panics_on_registered
#print axioms FP.Props.C20.bundle_unwrap_order
#print axioms FP.Props.C20.setByURL_others_unchanged
#print axioms FP.Props.C20.setByURL_sets
#print axioms FP.Props.C20.upsert_others_unchanged
#print axioms FP.Props.C20.upsert_has_value
#print axioms FP.Props.C20.appendInto_keeps
#print axioms FP.Props.C20.every_constant_names_its_type
