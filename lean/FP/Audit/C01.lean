import FP.Props.C01
#print axioms FP.Props.C01.panic_sites_are_the_audited_ones
#print axioms FP.Props.C01.arithmetic_total
#print axioms FP.Props.C01.logic_total
#print axioms FP.Props.C01.navigation_total
#print axioms FP.Props.C01.conversions_total
#print axioms FP.Props.C01.calendar_total
#print axioms FP.Props.C01.patch_total
#print axioms FP.Props.C01.evaluator_never_crashes
#print axioms FP.Props.C01.compile_evaluate_never_crash
