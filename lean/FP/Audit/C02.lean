import FP.Props.C02
#print axioms FP.Props.C02.step_yields_field_values
#print axioms FP.Props.C02.step_yields_primitive_value
#print axioms FP.Props.C02.choice_yields_chosen
#print axioms FP.Props.C02.contained_transparent
#print axioms FP.Props.C02.empty_wrapper_yields_nothing
#print axioms FP.Props.C02.reference_reads_back
#print axioms FP.Props.C02.resolve_invalid_iff
#print axioms FP.Props.C02.unknown_name_invalid_field
#print axioms FP.Props.C02.snake_name_rejected
#print axioms FP.Props.C02.hidden_date_fields_rejected
#print axioms FP.Props.C02.step_flattens_in_order
#print axioms FP.Props.C02.step_error_propagates
#print axioms FP.Props.C02.every_element_reachable
#print axioms FP.Props.C02.schema_nontrivial
#print axioms FP.Props.C02.resolves_as_schema
