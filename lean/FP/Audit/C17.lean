import FP.Props.C17
#print axioms FP.Props.C17.applyAll_errs_append
#print axioms FP.Props.C17.failing_option_prevents_evaluation
#print axioms FP.Props.C17.unsupported_nested_found
#print axioms FP.Props.C17.unsupported_deeply_nested
#print axioms FP.Props.C17.duplicate_name_existing
#print axioms FP.Props.C17.predefined_name_existing
#print axioms FP.Props.C17.applyAll_preserves
#print axioms FP.Props.C17.supplied_value_is_read_back
#print axioms FP.Props.C17.context_is_input
#print axioms FP.Props.C17.collection_spliced
#print axioms FP.Props.C17.unknown_variable_error
#print axioms FP.Props.C17.good_signature
#print axioms FP.Props.C17.bad_signature_rejected
#print axioms FP.Props.C17.existing_name_rejected
#print axioms FP.Props.C17.registered_arity
#print axioms FP.Props.C17.custom_call_passes_through
#print axioms FP.Props.C17.custom_call_checks_args
