import FP.Props.C06
#print axioms FP.Props.C06.tables_match_spec
#print axioms FP.Props.C06.tables_never_panic
#print axioms FP.Props.C06.singleton_rule
#print axioms FP.Props.C06.toBool_agrees
#print axioms FP.Props.C06.boolExpr_spec
#print axioms FP.Props.C06.boolExpr_never_panics
#print axioms FP.Props.C06.and_comm
#print axioms FP.Props.C06.or_comm
#print axioms FP.Props.C06.xor_comm
#print axioms FP.Props.C06.boolExpr_comm
#print axioms FP.Props.C06.de_morgan_and
#print axioms FP.Props.C06.de_morgan_or
#print axioms FP.Props.C06.implies_eq_not_or
#print axioms FP.Props.C06.notFn_spec
#print axioms FP.Props.C06.expr_criterion_multi_item_is_error
#print axioms FP.Props.C06.expr_criterion_single_item
#print axioms FP.Props.C06.expr_connective
