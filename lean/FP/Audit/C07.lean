import FP.Props.C07
#print axioms FP.Props.C07.arith_empty_left
#print axioms FP.Props.C07.arith_empty_right
#print axioms FP.Props.C07.cmp_empty_left
#print axioms FP.Props.C07.cmp_empty_right
#print axioms FP.Props.C07.eq_empty_left
#print axioms FP.Props.C07.eq_empty_right
#print axioms FP.Props.C07.neg_empty
#print axioms FP.Props.C07.type_op_empty
#print axioms FP.Props.C07.index_empty_index
#print axioms FP.Props.C07.index_empty_input
#print axioms FP.Props.C07.concat_empty_is_emptystring
#print axioms FP.Props.C07.table_propagates_empty
#print axioms FP.Props.C07.table_fully_classified
#print axioms FP.Props.C07.loop_only_models_empty
#print axioms FP.Props.C07.aggregates_documented
#print axioms FP.Props.C07.strict_path_on_empty
#print axioms FP.Props.C07.expr_arith_empty
