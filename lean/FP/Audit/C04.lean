import FP.Props.C04
#print axioms FP.Props.C04.clone_copies
#print axioms FP.Props.C04.base_table_unchanged
#print axioms FP.Props.C04.compile_sees_only_own_options
#print axioms FP.Props.C04.existing_name_not_replaceable
#print axioms FP.Props.C04.options_only_append
#print axioms FP.Props.C04.registered_function_is_local
#print axioms FP.Props.C04.shared_table_would_leak
#print axioms FP.Props.C04.no_package_variable_writes
#print axioms FP.Props.C04.no_process_state_written_after_init
#print axioms FP.Props.C04.package_variables_as_audited
#print axioms FP.Props.C04.disciplined_set
#print axioms FP.Props.C04.interleave_deterministic
#print axioms FP.Props.C04.reads_independent_of_schedule
#print axioms FP.Props.C04.clock_read_once
