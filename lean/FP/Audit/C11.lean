import FP.Props.C11
#print axioms FP.Props.C11.levels_as_specified
#print axioms FP.Props.C11.tight_alternatives_first
#print axioms FP.Props.C11.table_ok
#print axioms FP.Props.C11.minimal_rendering_roundtrip
#print axioms FP.Props.C11.rendering_in_context
#print axioms FP.Props.C11.trailing_rejected
