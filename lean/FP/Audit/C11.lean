import FP.Props.C11
#print axioms FP.Props.C11.levels_as_specified
#print axioms FP.Props.C11.tight_alternatives_first
#print axioms FP.Props.C11.table_ok
#print axioms FP.Props.C11.minimal_rendering_roundtrip
#print axioms FP.Props.C11.rendering_in_context
#print axioms FP.Props.C11.trailing_rejected
#print axioms FP.Props.C11.full_rendering_roundtrip
#print axioms FP.Props.C11.minimal_rendering_roundtrip_all
#print axioms FP.Props.C11.renderings_agree
#print axioms FP.Props.C11.redundant_parentheses
#print axioms FP.Props.C11.parentheses_transparent
#print axioms FP.Props.C11.type_operator_is_a_suffix
