import FP.Props.C11
#print axioms FP.Props.C11.levels_as_specified
#print axioms FP.Props.C11.tight_alternatives_first
