import FP.Props.C12
#print axioms FP.Props.C12.parent_agrees
#print axioms FP.Props.C12.hierarchy_closed
#print axioms FP.Props.C12.chains_short
#print axioms FP.Props.C12.mem_of_all
#print axioms FP.Props.C12.isFuel_eq_derivesFuel
#print axioms FP.Props.C12.is_agrees
#print axioms FP.Props.C12.is_cross_namespace
#print axioms FP.Props.C12.is_system
#print axioms FP.Props.C12.typeOf_code
#print axioms FP.Props.C12.typeOf_nested
#print axioms FP.Props.C12.typeOf_primitives
#print axioms FP.Props.C12.resolve_fhir_first
#print axioms FP.Props.C12.resolve_system
#print axioms FP.Props.C12.resolve_case_sensitive
#print axioms FP.Props.C12.long_specifier_rejected
#print axioms FP.Props.C12.short_specifier_resolved
