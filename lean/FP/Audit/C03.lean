import FP.Props.C03
#print axioms FP.Props.C03.append_targets_fresh
#print axioms FP.Props.C03.no_store_into_an_argument
#print axioms FP.Props.C03.indexed_stores_into_fresh_locals
#print axioms FP.Props.C03.eval_uses_readonly_proto_api
#print axioms FP.Props.C03.read_set_other
#print axioms FP.Props.C03.read_append_old
#print axioms FP.Props.C03.append_fresh_preserves_caller
#print axioms FP.Props.C03.fresh_not_caller
#print axioms FP.Props.C03.appends_from_fresh_preserve
#print axioms FP.Props.C03.append_to_caller_slice_writes
#print axioms FP.Props.C03.reslice_reads_only
