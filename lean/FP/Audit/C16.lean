import FP.Props.C16
#print axioms FP.Props.C16.accept_iff
#print axioms FP.Props.C16.accepted_impl
#print axioms FP.Props.C16.spec_names_and_arities_reachable
#print axioms FP.Props.C16.bound_to_same_name
#print axioms FP.Props.C16.no_extra_arities
#print axioms FP.Props.C16.experimental_reachable
#print axioms FP.Props.C16.unimplemented_explicit
#print axioms FP.Props.C16.names_unique
#print axioms FP.Props.C16.experimental_preserves_base
#print axioms FP.Props.C16.expr_call_accepted_iff
#print axioms FP.Props.C16.expr_call_bad_argument
#print axioms FP.Props.C16.expr_unimplemented_fails
#print axioms FP.Props.C16.join_needs_the_experimental_table
#print axioms FP.Props.C16.join_in_the_experimental_table
