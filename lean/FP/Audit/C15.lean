import FP.Props.C15
#print axioms FP.Props.C15.narrow_signed_iff_representable
#print axioms FP.Props.C15.narrow_unsigned_iff_representable
#print axioms FP.Props.C15.narrow_never_panics
