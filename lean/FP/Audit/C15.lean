import FP.Props.C15
#print axioms FP.Props.C15.narrow_signed_iff_representable
#print axioms FP.Props.C15.narrow_unsigned_iff_representable
#print axioms FP.Props.C15.narrow_never_panics
#print axioms FP.Props.C15.escape_table_is_spec
#print axioms FP.Props.C15.decodeAux_nil
#print axioms FP.Props.C15.decodeAux_cons_ne
#print axioms FP.Props.C15.decodeAux_esc
#print axioms FP.Props.C15.no_backslash_unchanged
#print axioms FP.Props.C15.escapes_decode
#print axioms FP.Props.C15.unicode_decodes
#print axioms FP.Props.C15.decode_encode
#print axioms FP.Props.C15.literal_roundtrip
#print axioms FP.Props.C15.boolean_text_roundtrip
#print axioms FP.Props.C15.integer_text_roundtrip
#print axioms FP.Props.C15.temporal_text_roundtrip
#print axioms FP.Props.C15.decimal_text_roundtrip
#print axioms FP.Props.C15.quantity_text_roundtrip_partial
