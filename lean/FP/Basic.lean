/-
  FP.Basic — outcomes of modelled Go calls and small shared helpers.  Core Lean only.
-/
namespace FP

/-- Outcome of a modelled call: a value, a Go `error` (named by the sentinel it wraps, as
    `errors.Is` can observe), or a run-time panic. -/
inductive Res (α : Type) where
  | ok (a : α)
  | err (e : String)
  | panic
deriving DecidableEq, Repr

namespace Res
def bind {α β : Type} (r : Res α) (f : α → Res β) : Res β :=
  match r with
  | ok a => f a
  | err e => err e
  | panic => panic
instance : Monad Res where
  pure := ok
  bind := bind
def isPanic {α : Type} : Res α → Bool
  | panic => true
  | _ => false
def ofOption {α : Type} : Option α → Res α
  | some a => ok a
  | none => panic
@[simp] theorem bind_ok {α β} (a : α) (f : α → Res β) : (Res.ok a >>= f) = f a := rfl
@[simp] theorem bind_err {α β} (e : String) (f : α → Res β) : (Res.err e >>= f) = Res.err e := rfl
@[simp] theorem bind_panic {α β} (f : α → Res β) : ((Res.panic : Res α) >>= f) = Res.panic := rfl
end Res

/-- three-valued FHIRPath truth value: `none` = empty collection -/
abbrev Tri := Option Bool

def Tri.toList (t : Tri) : List Bool := match t with | none => [] | some b => [b]

end FP
