import FP.Drv.Util
import FP.Model.Wrappers
namespace FP.Drv.C20
open FP FP.Model

def parseExts (s : String) : Option (List Ext) :=
  if s == "-" then some [] else
  (s.splitOn ",").mapM fun p => match p.splitOn "=" with
    | [u, v] => do pure (u, ← v.toNat?)
    | _ => none

def showExts (l : List Ext) : String :=
  if l.isEmpty then "-" else ",".intercalate (l.map fun e => s!"{e.1}={e.2}")

def parseNats (s : String) : Option (List Nat) :=
  if s == "-" then some [] else (s.splitOn ",").mapM (·.toNat?)

def str? (h : String) : Option String := (unhexBytes h).bind fun bs => String.fromUTF8? (ByteArray.mk bs.toArray)
def hexStr (s : String) : String := hexBytes s.toUTF8.toList

def handle : List String → Option String
  | ["snake", h] => do pure ("ok:" ++ hexStr (toSnakeCase (← str? h)))
  | ["wrap", n] => match wrap ⟨n, 0⟩ with
      | .ok c => some ("ok:" ++ c.1)
      | .panic => some "panic"
      | .err e => some ("err:" ++ e)
  | ["extfield", n] => match extensionField n with
      | some f => some ("ok:" ++ f)
      | none => some "err"
  | ["upsert", l, e] => do
      let l ← parseExts l; let e ← parseExts e
      match e with
      | [x] => pure ("ok:" ++ showExts (upsert l x))
      | _ => none
  | ["setbyurl", l, u, vs] => do pure ("ok:" ++ showExts (setByURL (← parseExts l) u (← parseNats vs)))
  | ["append", l, es] => do pure ("ok:" ++ showExts (appendInto (← parseExts l) (← parseExts es)))
  | ["overwrite", l, es] => do pure ("ok:" ++ showExts (overwrite (← parseExts l) (← parseExts es)))
  | _ => none

/-- reference: the field must be the oneof member whose message type has that name -/
def handleRef : List String → Option String
  | ["wrap", n] => match FP.Gen.Schema.containedOneof.find? (fun p => p.1 == n) with
      | some p => some ("ok:" ++ p.2)
      | none => some "n/a"
  | ["extfield", n] => match FP.Gen.Schema.extensionValueX.find? (fun p => p.1 == n) with
      | some p => some ("ok:" ++ p.2)
      | none => some "n/a"
  | _ => none

end FP.Drv.C20
