import FP.Drv.Util
import FP.Model.Refs
namespace FP.Drv.C19
open FP FP.Model

def str? (h : String) : Option S := ((unhexBytes h).bind fun bs => String.fromUTF8? (ByteArray.mk bs.toArray)).map (·.toList)
def hx (s : S) : String := hexBytes (String.ofList s).toUTF8.toList

def showLit (l : Lit) : String :=
  let parts : List String :=
    (match l.fragment with | some f => ["frag=" ++ hx f] | none => []) ++
    (match l.ident with | some i => ["ident=" ++ hx i.type ++ "/" ++ hx i.id ++ "/" ++ hx i.vid] | none => []) ++
    (if l.base.isEmpty then [] else ["base=" ++ hx l.base]) ++
    (match l.nonRest with | some n => ["nonrest=" ++ hx n] | none => []) ++
    ["uri=" ++ hx (uriString l)]
  "ok:" ++ "|".intercalate parts

def parseIdent (s : String) : Option (Option Ident) :=
  if s == "-" then some none else
  match s.splitOn "/" with
  | [t, i, v] => do pure (some ⟨← str? t, ← str? i, ← str? v⟩)
  | _ => none

def parseRef (s : String) : Option RefA :=
  match s.splitOn "," with
  | [w, idf, hr, idt] => do
      let w ← w.toInt?
      pure ⟨w.toNat + (if w < 0 then 1000 else 0), (if idf == "-" then none else some (idf.toNat?.getD 999)), hr == "true", ← parseIdent idt⟩
  | _ => none

def handle : List String → Option String
  | ["lit", h] => do
      match literalInfoFromURI (← str? h) with
      | .ok l => pure (showLit l)
      | .err => pure "err"
      | .unmodelled => pure "unmodelled"
  | ["canon", h] => do
      match canonParse (← str? h) with
      | some c => pure ("ok:" ++ hx c.url ++ "|" ++ hx c.version ++ "|" ++ hx c.fragment)
      | none => pure "err"
  | ["refis", a, b] => do pure (toString (refIs (← parseRef a) (← parseRef b)))
  | _ => none

def handleRef : List String → Option String := fun _ => none

end FP.Drv.C19
