import FP.Drv.Util
import FP.Model.FuncTable
import FP.Ref.N1
namespace FP.Drv.C16
open FP FP.Model FP.Gen.FuncTable

def showOutcome : CompileOutcome → String
  | .accepted i => "accepted:" ++ i
  | .unresolved => "unresolved"
  | .arity => "arity"

def handle : List String → Option String
  | ["fcall", exp, name, n] => do
      let n ← n.toNat?
      pure (showOutcome (compileCall (tableFor (exp == "1")) name n))
  | _ => none

/-- reference: the N1 list decides acceptance for specification names (implementation
    binding is `impl.<Name>` unless the table marks it not implemented); names outside the
    specification have no reference outcome. -/
def handleRef : List String → Option String
  | ["fcall", _, name, n] => do
      let n ← n.toNat?
      match Ref.n1.find? (fun s => s.name == name) with
      | none => pure "n/a"
      | some s =>
        if s.arities.contains n then
          match lookup baseTable name with
          | some e => if e.impl == "unimplemented" then pure "accepted:unimplemented" else pure ("accepted:" ++ Ref.implName name)
          | none => pure ("accepted:" ++ Ref.implName name)
        else pure "arity"
  | _ => none

end FP.Drv.C16
