import FP.Drv.Val
import FP.Model.Arith
namespace FP.Drv.C08
open FP FP.Model FP.Drv

def parseOp : String → Option ArithOp
  | "add" => some .add | "sub" => some .sub | "mul" => some .mul
  | "div" => some .div | "floordiv" => some .floorDiv | "mod" => some .mod | _ => none

def parseFn : String → Option MathFn
  | "abs" => some .abs | "ceiling" => some .ceiling | "floor" => some .floor
  | "truncate" => some .truncate | "round" => some .round0 | _ => none

/-- error names of the model → the classes the harness reports -/
def errClass : String → String
  | "ErrTypeMismatch" => "type-mismatch"
  | "ErrToBeImplemented" => "to-be-implemented"
  | "ErrMismatchedUnit" => "mismatched-unit"
  | "ErrInvalidType" => "invalid-type"
  | e => e

def showR (r : Res (List Val)) : String :=
  match r with
  | .ok l => "ok:" ++ showVals l
  | .err e => "err:" ++ errClass e
  | .panic => "panic"

def handle : List String → Option String
  | ["arith", op, a, b] => do
      pure (showR (arithExpr (← parseOp op) (← parseVal a) (← parseVal b)))
  | ["neg", a] => do pure (showR (negate (← parseVal a)))
  | ["math", f, a] => do pure (showR (mathFn (← parseFn f) (← parseVal a)))
  | _ => none

def handleRef : List String → Option String := fun _ => none

end FP.Drv.C08
