/- Driver utilities: token parsing and canonical printing.  Core Lean only. -/
import FP.Basic
namespace FP.Drv

def showRes {α : Type} (f : α → String) : Res α → String
  | .ok a => "ok:" ++ f a
  | .err e => "err:" ++ e
  | .panic => "panic"

def hexVal (c : Char) : Option Nat :=
  if '0' ≤ c ∧ c ≤ '9' then some (c.toNat - '0'.toNat)
  else if 'a' ≤ c ∧ c ≤ 'f' then some (c.toNat - 'a'.toNat + 10)
  else none

/-- decode "x<hex bytes>" into bytes -/
def unhexBytes (s : String) : Option (List UInt8) :=
  let rec go : List Char → List UInt8 → Option (List UInt8)
    | [], acc => some acc.reverse
    | [_], _ => none
    | a :: b :: rest, acc => do
        let h ← hexVal a; let l ← hexVal b
        go rest (UInt8.ofNat (h * 16 + l) :: acc)
  match s.toList with
  | 'x' :: cs => go cs []
  | _ => none

def hexDigit (n : Nat) : Char := if n < 10 then Char.ofNat (48 + n) else Char.ofNat (87 + n)
def hexBytes (bs : List UInt8) : String :=
  "x" ++ String.ofList (bs.flatMap fun b => [hexDigit (b.toNat / 16), hexDigit (b.toNat % 16)])

def parseInt (s : String) : Option Int := s.toInt?

end FP.Drv
