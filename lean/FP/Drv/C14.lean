import FP.Drv.Util
import FP.Model.Strings
namespace FP.Drv.C14
open FP FP.Model

def str? (h : String) : Option Str := ((unhexBytes h).bind fun bs => String.fromUTF8? (ByteArray.mk bs.toArray)).map (·.toList)
def hexStr (s : Str) : String := hexBytes (String.ofList s).toUTF8.toList

def showOptStr : Option Str → String
  | none => "ok:[]"
  | some s => "ok:[S:" ++ hexStr s ++ "]"

/-- case map `c1=x..;c2=x..` as pairs -/
def parseMap (s : String) : Option (List (Char × Str)) :=
  if s == "-" then some [] else
  (s.splitOn ";").mapM fun p => match p.splitOn "=" with
    | [a, b] => do
        let a ← str? a; let b ← str? b
        match a with | [c] => pure (c, b) | _ => none
    | _ => none

def handle : List String → Option String
  | ["slen", s] => do pure s!"ok:[I:{lengthFn (← str? s)}]"
  | ["ssub1", s, st] => do pure (showOptStr (substring (← str? s) (← st.toInt?) none))
  | ["ssub2", s, st, l] => do pure (showOptStr (substring (← str? s) (← st.toInt?) (some (← l.toInt?))))
  | ["sidx", s, t] => do pure s!"ok:[I:{indexOf (← str? s) (← str? t)}]"
  | ["sstarts", s, t] => do pure s!"ok:[B:{startsWith (← str? s) (← str? t)}]"
  | ["sends", s, t] => do pure s!"ok:[B:{endsWith (← str? s) (← str? t)}]"
  | ["scontains", s, t] => do pure s!"ok:[B:{containsStr (← str? s) (← str? t)}]"
  | ["srepl", s, p, r] => do pure ("ok:[S:" ++ hexStr (replaceAll (← str? s) (← str? p) (← str? r)) ++ "]")
  | ["schars", s] => do
      let cs := toChars (← str? s)
      pure ("ok:[" ++ ",".intercalate (cs.map fun c => "S:" ++ hexStr c) ++ "]")
  | ["smap", s, m] => do pure ("ok:[S:" ++ hexStr (mapChars (← parseMap m) (← str? s)) ++ "]")
  | _ => none

def handleRef : List String → Option String := fun _ => none

end FP.Drv.C14
