import FP.Drv.Util
import FP.Model.Syntax
import FP.Model.Eval
import FP.Drv.Val
namespace FP.Drv.C11
open FP FP.Model.Syntax FP.Model.Eval

def hx (s : String) : String := hexBytes s.toUTF8.toList

def tokText : Tok → String
  | .num s => s
  | .str s => "'" ++ s ++ "'"
  | .ident s => s
  | .delim s => "`" ++ s ++ "`"
  | .temporal s => s
  | .kw s => s
  | .bad s => s

partial def canon : Ex → String
  | .lit t => "(lit " ++ hx (tokText t) ++ ")"
  | .qty n u => "(qty " ++ hx n ++ " " ++ hx (tokText u) ++ ")"
  | .ext n => "(ext " ++ hx n ++ ")"
  | .special s => "(sp " ++ hx s ++ ")"
  | .member n => "(m " ++ hx n ++ ")"
  | .call n as => "(call " ++ hx n ++ canonArgs as ++ ")"
  | .argNil => "(args)"
  | .argCons e r => "(args " ++ canon e ++ canonArgs r ++ ")"
  | .dot e i => "(. " ++ canon e ++ " " ++ canon i ++ ")"
  | .idx e i => "(idx " ++ canon e ++ " " ++ canon i ++ ")"
  | .pol o e => "(pol " ++ hx o ++ " " ++ canon e ++ ")"
  | .bin o l r => "(bin " ++ hx o ++ " " ++ canon l ++ " " ++ canon r ++ ")"
  | .typ o e t => "(typ " ++ hx o ++ " " ++ canon e ++ " " ++ hx (".".intercalate t) ++ ")"
where
  canonArgs : Ex → String
    | .argNil => ""
    | .argCons e r => " " ++ canon e ++ canonArgs r
    | e => " " ++ canon e

def str? (h : String) : Option String := (unhexBytes h).bind fun bs => String.fromUTF8? (ByteArray.mk bs.toArray)

/-- environment on the `ev` line: `-` or `name=tok,tok;name=;…` (hex names, value tokens of FP.Drv.Val with ',' written '/') -/
def parseEnv (s : String) : Option Env :=
  if s == "-" then some [] else
  (s.splitOn ";").mapM fun p =>
    match p.splitOn "=" with
    | [n, vs] => do
        let name ← str? n
        let vals ← if vs == "" then some [] else (vs.splitOn ",").mapM fun t => FP.Drv.parseVal (t.replace "/" ",")   -- the commas inside a temporal token travel as '/' 
        pure (name, vals)
    | _ => none

def showOutcome : Outcome → String
  | .result c => "ok:" ++ FP.Drv.showVals c
  | .evalError _ => "err:eval"
  | .compileError => "err:compile"
  | .unmodelled => "skip"
  | .crash => "panic"

def handle : List String → Option String
  | ["syn", h] => do
      let s ← str? h
      pure (match parse s with | some e => "ok " ++ canon e | none => "err")
  | ["ev", h, envs] => do
      let s ← str? h
      let env ← parseEnv envs
      pure (showOutcome (run FP.Gen.FuncTable.baseTable s env []))
  | ["evx", h, envs] => do           -- the same under WithExperimentalFuncs()
      let s ← str? h
      let env ← parseEnv envs
      pure (showOutcome (run (FP.Model.withExperimental FP.Gen.FuncTable.baseTable) s env []))
  | _ => none

def handleRef : List String → Option String := fun _ => none

end FP.Drv.C11
