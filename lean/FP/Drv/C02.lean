import FP.Drv.Util
import FP.Model.Navigate
namespace FP.Drv.C02
open FP FP.Model

def str? (h : String) : Option String := (unhexBytes h).bind fun bs => String.fromUTF8? (ByteArray.mk bs.toArray)

def optNat (s : String) : Option (Option Nat) := if s == "-" then some none else s.toNat?.map some

def parseChild (s : String) : Option Child :=
  match s.toList with
  | 'p' :: r => (String.ofList r).toNat?.map .plain
  | 'x' :: r => (String.ofList r).toNat?.map .marker
  | 'c' :: r => match (String.ofList r).splitOn ":" with
      | [a, b] => do pure (.choice (← a.toNat?) (← optNat b))
      | _ => none
  | 'r' :: r => match (String.ofList r).splitOn ":" with
      | [a, b] => do pure (.contained (← a.toNat?) (← optNat b))
      | _ => none
  | _ => none

def parseField (s : String) : Option FieldDesc :=
  match s.splitOn "," with
  | [p, j, l, m, vs] => do
      let vals ← if vs == "-" then some [] else (vs.splitOn "+").mapM parseChild
      pure ⟨p, j, l == "1", m == "1", vals⟩
  | _ => none

def parseMsg (s : String) : Option (Nat × MsgDesc) :=
  match s.splitOn "|" with
  | [id, nm, dl, ir, rs, po, nv, fs] => do
      let fields ← if fs == "-" then some [] else (fs.splitOn ";").mapM parseField
      pure (← id.toNat?, ⟨nm, dl == "1", ir == "1", ← optNat rs, po == "1", nv == "1", fields⟩)
  | _ => none

def showOut : Out → String
  | .node id => "n" ++ toString id
  | .prim o => "P" ++ toString o
  | .synthRef id => "S" ++ toString id
  | .synthValue => "V"

def handle : List String → Option String
  | "fstep" :: n :: sn :: msgs => do
      let name ← str? n; let snake ← str? sn
      let ms ← msgs.mapM parseMsg
      pure (showRes (fun os => " ".intercalate (os.map showOut)) (fieldStepAll name snake ms))
  | _ => none

def handleRef : List String → Option String := fun _ => none

end FP.Drv.C02
