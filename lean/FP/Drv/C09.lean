import FP.Drv.Util
import FP.Drv.C13
import FP.Model.Calendar
import FP.Gen.Layouts
namespace FP.Drv.C09
open FP FP.Model FP.Model.Text FP.Model.Calendar FP.Gen.Layouts

def str? (h : String) : Option String := (unhexBytes h).bind fun bs => String.fromUTF8? (ByteArray.mk bs.toArray)

def showR (r : Res Wall) : String :=
  match r with
  | .ok w => "ok:" ++ FP.Drv.C13.showWall w
  | .err e => "err:" ++ e
  | .panic => "panic"

def handle : List String → Option String
  | ["shift", kind, layoutHex, wall, dec, unitHex, sign] => do
      let layout ← str? layoutHex
      let w ← FP.Drv.C13.parseWall wall
      let v ← FP.Drv.C13.parseDecTok dec
      let u ← str? unitHex
      let sg : Int := if sign == "-" then -1 else 1
      match kind with
      | "date" => do let p ← precOf dateMap layout; pure (showR (shiftDate p w v u sg))
      | "datetime" => do let p ← precOf dateTimeMap layout; pure (showR (shiftDateTime p w v u sg))
      | "time" => do let p ← precOf timeMap layout; pure (showR (shiftTime p w v u sg))
      | _ => none
  | _ => none

/-- the calendar model is the reference computation the property names: a difference between the
    implementation and it is a failing input by itself -/
def handleRef : List String → Option String := handle

end FP.Drv.C09
