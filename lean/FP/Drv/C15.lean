import FP.Drv.Util
import FP.Model.Literal
import FP.Gen.Narrow
import FP.Ref.IntKinds
namespace FP.Drv.C15
open FP FP.Gen.Narrow

def handle : List String → Option String
  | ["narrow", frm, to, v] => do
      let v ← v.toInt?
      match toIntegerOk (Ref.kindSigned frm) to v with
      | some b => pure (toString b)
      | none => pure "panic"
  | ["unesc", h] => do
      let bs ← unhexBytes h
      let src ← String.fromUTF8? (ByteArray.mk bs.toArray)
      pure (hexBytes (String.ofList (FP.Model.Literal.parseString src.toList)).toUTF8.toList)
  | _ => none

def handleRef : List String → Option String
  | ["narrow", _, to, v] => do
      let v ← v.toInt?
      pure (toString (Ref.representable to v))
  | _ => none

end FP.Drv.C15
