import FP.Drv.Util
import FP.Model.Isolation
namespace FP.Drv.C04
open FP FP.Model FP.Gen.FuncTable

def parseOpt (s : String) : Option CompileOpt :=
  match s.splitOn ":" with
  | ["A", n, g] => some (.addFunction n (g == "1"))
  | ["X"] => some .experimental
  | ["P"] => some .permissive
  | _ => none

def parseCall (s : String) : Option (List CompileOpt) :=
  if s == "-" then some [] else (s.splitOn ",").mapM parseOpt

/-- `hist <probe names ,> <call|call|…>`: per call `E` (an option failed) or the visible probe names -/
def handle : List String → Option String
  | ["hist", probes, calls] => do
      let ps := probes.splitOn ","
      let cs ← (calls.splitOn "|").mapM parseCall
      let base := baseTable.map (·.name)
      let exp := experimentalTable.map (·.name)
      let h := history FP.Gen.Sites.cloneCopies exp ⟨base⟩ cs
      let show1 := fun (r : Names × Bool) => if r.2 then "E" else ",".intercalate (ps.filter (fun p => r.1.contains p))
      pure ("|".intercalate (h.2.map show1))
  | _ => none

def handleRef : List String → Option String := fun _ => none

end FP.Drv.C04
