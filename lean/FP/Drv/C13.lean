import FP.Drv.Util
import FP.Model.Conv
namespace FP.Drv.C13
open FP FP.Model FP.Model.Text FP.Model.Conv

/-- bytes-as-characters: Go strings are byte sequences; the text functions only ever inspect ASCII -/
def bytesS (h : String) : Option S := (unhexBytes h).map fun bs => bs.map fun b => Char.ofNat b.toNat
def hexS (s : S) : String := hexBytes (s.map fun c => UInt8.ofNat c.toNat)

def parseDecTok (s : String) : Option Dec :=
  match s.splitOn "e" with
  | [c, e] => do pure ⟨← c.toInt?, ← e.toInt?⟩
  | _ => none
def showDec (d : Dec) : String := toString d.coeff ++ "e" ++ toString d.exp

def parseWall (s : String) : Option Wall :=
  match (s.splitOn ",").mapM String.toInt? with
  | some [y, mo, d, h, mi, sec, ns, off] => some ⟨y, mo, d, h, mi, sec, ns, off⟩
  | _ => none
def showWall (w : Wall) : String :=
  ",".intercalate ([w.year, w.month, w.day, w.hour, w.minute, w.second, w.nanos, w.offset].map toString)

def strOfS (h : String) : Option String := (bytesS h).map String.ofList

def parseCV (tok : String) : Option CV :=
  match tok.splitOn ":" with
  | ["B", b] => some (.bool (b == "true"))
  | ["I", i] => i.toInt?.map .int
  | ["D", d] => (parseDecTok d).map .dec
  | ["S", h] => (bytesS h).map .str
  | ["Q", d, u] => do pure (.quantity (← parseDecTok d) (← bytesS u))
  | ["Da", l, w] => do pure (.date (← strOfS l) (← parseWall w))
  | ["DT", l, w] => do pure (.dateTime (← strOfS l) (← parseWall w))
  | ["T", l, w] => do pure (.time (← strOfS l) (← parseWall w))
  | ["C"] => some .complex
  | _ => none

def showCV : CV → String
  | .bool b => "B:" ++ toString b
  | .int i => "I:" ++ toString i
  | .dec d => "D:" ++ showDec d
  | .str s => "S:" ++ hexS s
  | .quantity d u => "Q:" ++ showDec d ++ ":" ++ hexS u
  | .date l w => "Da:" ++ hexS l.toList ++ ":" ++ showWall w
  | .dateTime l w => "DT:" ++ hexS l.toList ++ ":" ++ showWall w
  | .time l w => "T:" ++ hexS l.toList ++ ":" ++ showWall w
  | .complex => "C"

def parseTy : String → Option Ty
  | "Boolean" => some .boolean | "Integer" => some .integer | "Decimal" => some .decimal | "String" => some .string
  | "Date" => some .date | "DateTime" => some .dateTime | "Time" => some .time | "Quantity" => some .quantity
  | _ => none

def handle : List String → Option String
  | ["conv", t, x] => do
      let t ← parseTy t; let x ← parseCV x
      pure (match convTo t x with
        | .ok none => "ok:-"
        | .ok (some v) => "ok:" ++ showCV v
        | .err _ => "err"
        | .panic => "panic")
  | ["cvt", t, x] => do
      let t ← parseTy t; let x ← parseCV x
      pure (toString (convertsTo t x))
  | _ => none

def handleRef : List String → Option String := fun _ => none

end FP.Drv.C13
