import FP.Drv.Util
import FP.Model.Options
namespace FP.Drv.C17
open FP FP.Model

/-- value shapes: `s<id>` System, `e<id>` element, `b` bad, `c(...)` collection with `,` separated items -/
partial def parseShape (cs : List Char) : Option (VShape × List Char) :=
  match cs with
  | 's' :: rest => let (d, r) := rest.span Char.isDigit; some (.sys (String.ofList d).toNat!, r)
  | 'e' :: rest => let (d, r) := rest.span Char.isDigit; some (.elem (String.ofList d).toNat!, r)
  | 'b' :: rest => some (.bad, rest)
  | 'c' :: '(' :: rest => parseItems rest []
  | _ => none
where
  parseItems (cs : List Char) (acc : List VShape) : Option (VShape × List Char) :=
    match cs with
    | ')' :: rest => some (.coll acc.reverse, rest)
    | ',' :: rest => parseItems rest acc
    | _ => match parseShape cs with
      | some (v, rest) => parseItems rest (v :: acc)
      | none => none

def shape? (s : String) : Option VShape := match parseShape s.toList with | some (v, []) => some v | _ => none

partial def showShape : VShape → String
  | .sys i => s!"s{i}" | .elem i => s!"e{i}" | .bad => "b"
  | .coll items => "c(" ++ ",".intercalate (items.map showShape) ++ ")"

def showErrs (l : List OptErr) : String :=
  let u := l.contains .unsupportedType
  let e := l.contains .existingConstant
  "err:" ++ (if u then "U" else "") ++ (if e then "E" else "")

/-- `env <var> <name=shape;...>`: evaluate `%var` under the option list -/
def handle : List String → Option String
  | ["env", var, opts] => do
      let os ← (if opts == "-" then some [] else (opts.splitOn ";").mapM fun p => match p.splitOn "=" with
        | [n, v] => do pure (⟨n, ← shape? v⟩ : EnvOpt)
        | _ => none)
      -- the input collection is one resource, element id 999
      match evaluateWith (.coll [.elem 999]) os (fun m => lookupVar m var) with
      | .error errs => pure (showErrs errs)
      | .ok (.error e) => pure ("err:" ++ e)
      | .ok (.ok items) => pure ("ok:" ++ ",".intercalate (items.map showShape))
  | ["reg", name, isFunc, ins, outs, builtin] => do
      let ty := fun (s : String) => if s == "C" then GoTy.collection else if s == "E" then GoTy.error else GoTy.other s
      let parse := fun (s : String) => if s == "-" then [] else (s.splitOn ",").map ty
      let tableNames := if builtin == "1" then [name] else []
      match register tableNames name ⟨isFunc == "1", parse ins, parse outs⟩ with
      | .registered a => pure s!"registered:{a}"
      | .exists => pure "exists"
      | .badSig _ => pure "bad-signature"
  | _ => none

def handleRef : List String → Option String := fun _ => none

end FP.Drv.C17
