import FP.Drv.Util
import FP.Model.Empty
import FP.Model.FuncTable
namespace FP.Drv.C07
open FP FP.Model FP.Gen.FuncTable

/-- `emptyfn <exp> <name>`: outcome class of `{}.name(args…)`;
    `emptyop <op>`: an operator with an empty operand -/
def handle : List String → Option String
  | ["emptyfn", exp, name] =>
      match lookup (tableFor (exp == "1")) name with
      | none => some "compile-err"
      | some e => match onEmpty e with
        | some s => some s
        | none => some "any"
  | ["emptyop", op] => some (if op == "concat" then "ok:[S:x]" else "ok:[]")
  | _ => none

def handleRef : List String → Option String := fun _ => none

end FP.Drv.C07
