import FP.Drv.Util
import FP.Model.Types
import FP.Ref.Types
namespace FP.Drv.C12
open FP FP.Model FP.Gen.TypeParent

def parseItem (s : String) : Option TItem :=
  match s.splitOn ":" with
  | ["sys", n] => some (.sys n)
  | ["msg", n, c, ne, m] => some (.msg n (c == "1") (ne == "1") (m == "1"))
  | _ => none

def parseNs (s : String) : Option String := if s == "-" then none else some s

def handle : List String → Option String
  | ["is", item, ns, t] => do
      let it ← parseItem item
      match resolve (parseNs ns) t with
      | .ok spec => pure (if is (typeOf it) spec then "ok:t" else "ok:f")
      | .err _ => pure "compile-err"
      | .panic => pure "panic"
  | ["as", item, ns, t] => do
      let it ← parseItem item
      match resolve (parseNs ns) t with
      | .ok spec => pure (if is (typeOf it) spec then "ok:self" else "ok:empty")
      | .err _ => pure "compile-err"
      | .panic => pure "panic"
  | "tspec" :: parts =>
      match resolveParts parts with
      | .ok _ => some "ok"
      | .err _ => some "compile-err"
      | .panic => some "panic"
  | _ => none

/-- declared type of an item, from its schema position (not from the code's TypeOf) -/
def declared : TItem → String × String
  | .sys n => ("System", n)
  | .msg n isCode nested hasModExt =>
    if isCode then ("FHIR", "code")
    else if nested then ("FHIR", if hasModExt then "BackboneElement" else "Element")
    else ("FHIR", FP.Gen.Schema.toLowerCamel n)

def systemNames : List String := ["Boolean", "String", "Integer", "Decimal", "Date", "DateTime", "Time", "Quantity", "Any"]

/-- reference: specifier validity from the type-name universe, `is` from the R4 hierarchy -/
def refSpec (ns : Option String) (t : String) : Option (String × String) :=
  match ns with
  | some "FHIR" => if Ref.fhirTypeNames.contains t then some ("FHIR", t) else none
  | some "System" => if systemNames.contains t then some ("System", t) else none
  | some _ => none
  | none => if Ref.fhirTypeNames.contains t then some ("FHIR", t)
            else if systemNames.contains t then some ("System", t) else none

def refIs (d s : String × String) : Bool :=
  d.1 == s.1 && (if d.1 == "System" then d.2 == s.2 || s.2 == "Any" else Ref.derives d.2 s.2)

def handleRef : List String → Option String
  | "tspec" :: parts =>
    (match parts with
     | [n] => some (if (refSpec none n).isSome then "ok" else "compile-err")
     | [ns, n] => some (if (refSpec (some ns) n).isSome then "ok" else "compile-err")
     | _ => some "compile-err")
  | [op, item, ns, t] =>
    if op != "is" && op != "as" then none else
    -- outside the reference's universe: google/fhir's internal ReferenceId, and xhtml (which the
    -- code only knows under the capitalised message name)
    if t == "Xhtml" || t == "xhtml" || (item.splitOn ":").getD 1 "" == "Xhtml" || (item.splitOn ":").getD 1 "" == "ReferenceId" then some "n/a" else do
      let it ← parseItem item
      match refSpec (parseNs ns) t with
      | none => pure "compile-err"
      | some s =>
        let b := refIs (declared it) s
        if op == "is" then pure (if b then "ok:t" else "ok:f") else pure (if b then "ok:self" else "ok:empty")
  | _ => none

end FP.Drv.C12
