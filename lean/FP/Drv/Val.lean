/- Parsing and canonical printing of System values on the driver's line protocol. -/
import FP.Drv.Util
import FP.Model.Value
namespace FP.Drv
open FP FP.Model

def parseDec (s : String) : Option Dec :=
  match s.splitOn "e" with
  | [c, e] => do pure ⟨← c.toInt?, ← e.toInt?⟩
  | _ => none

def parseInts (s : String) : Option (List Int) := (s.splitOn ",").mapM (·.toInt?)
def str? (h : String) : Option String := (unhexBytes h).bind fun bs => String.fromUTF8? (ByteArray.mk bs.toArray)
def showInts (l : List Int) : String := ",".intercalate (l.map toString)

/-- `I:5` `D:15e-1` `S:x6162` `B:true` `Q:5e0:x6d67` `O:tag` -/
def parseVal (s : String) : Option Val :=
  match s.splitOn ":" with
  | ["I", n] => (n.toInt?).map .int
  | ["D", d] => (parseDec d).map .dec
  | ["S", h] => (unhexBytes h).map .str
  | ["B", "true"] => some (.bool true)
  | ["B", "false"] => some (.bool false)
  | ["Q", d, u] => do pure (.quantity (← parseDec d) (← unhexBytes u))
  | ["O", t] => some (.other t)
  | ["Da", l, c, i] => do pure (.date ⟨← parseInts c, ← parseInts i, ← str? l, 0⟩)
  | ["DT", l, c, i, o] => do pure (.dateTime ⟨← parseInts c, ← parseInts i, ← str? l, ← o.toInt?⟩)
  | ["T", l, c, i] => do pure (.time ⟨← parseInts c, ← parseInts i, ← str? l, 0⟩)
  | _ => none

def showDec (d : Dec) : String :=
  let n := d.normalize
  s!"{n.coeff}e{n.exp}"

def showVal : Val → String
  | .int i => s!"I:{i}"
  | .dec d => "D:" ++ showDec d
  | .str s => "S:" ++ hexBytes s
  | .bool b => if b then "B:true" else "B:false"
  | .quantity d u => "Q:" ++ showDec d ++ ":" ++ hexBytes u
  | .date t => "Da:" ++ hexBytes t.layout.toUTF8.toList ++ ":" ++ showInts t.comps ++ ":" ++ showInts t.inst
  | .dateTime t => "DT:" ++ hexBytes t.layout.toUTF8.toList ++ ":" ++ showInts t.comps ++ ":" ++ showInts t.inst ++ ":" ++ toString t.off
  | .time t => "T:" ++ hexBytes t.layout.toUTF8.toList ++ ":" ++ showInts t.comps ++ ":" ++ showInts t.inst
  | .other t => "O:" ++ t

def showVals (l : List Val) : String := "[" ++ ",".intercalate (l.map showVal) ++ "]"

end FP.Drv
