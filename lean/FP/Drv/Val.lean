/- Parsing and canonical printing of System values on the driver's line protocol. -/
import FP.Drv.Util
import FP.Model.Value
namespace FP.Drv
open FP FP.Model

def parseDec (s : String) : Option Dec :=
  match s.splitOn "e" with
  | [c, e] => do pure ⟨← c.toInt?, ← e.toInt?⟩
  | _ => none

/-- `I:5` `D:15e-1` `S:x6162` `B:true` `Q:5e0:x6d67` `O:tag` -/
def parseVal (s : String) : Option Val :=
  match s.splitOn ":" with
  | ["I", n] => (n.toInt?).map .int
  | ["D", d] => (parseDec d).map .dec
  | ["S", h] => (unhexBytes h).map .str
  | ["B", "true"] => some (.bool true)
  | ["B", "false"] => some (.bool false)
  | ["Q", d, u] => do pure (.quantity (← parseDec d) (← unhexBytes u))
  | ["O", t] => some (.other t)
  | _ => none

def showDec (d : Dec) : String :=
  let n := d.normalize
  s!"{n.coeff}e{n.exp}"

def showVal : Val → String
  | .int i => s!"I:{i}"
  | .dec d => "D:" ++ showDec d
  | .str s => "S:" ++ hexBytes s
  | .bool b => if b then "B:true" else "B:false"
  | .quantity d u => "Q:" ++ showDec d ++ ":" ++ hexBytes u
  | .other t => "O:" ++ t

def showVals (l : List Val) : String := "[" ++ ",".intercalate (l.map showVal) ++ "]"

end FP.Drv
