import FP.Drv.Util
import FP.Model.Patch
namespace FP.Drv.C18
open FP FP.Model.Patch

def b (s : String) : Bool := s == "1"

def parseSlot (s : String) : Option Slot :=
  match s.splitOn ":" with
  | [a, u] => do pure ⟨← a.toNat?, ← u.toNat?⟩
  | _ => none

def parseField (s : String) : Option PField :=
  match s.splitOn "," with
  | [p, l, m, ss, t, vs] => do
      let vals ← if vs == "-" then some [] else (vs.splitOn "+").mapM parseSlot
      pure ⟨p, b l, b m, b ss, t, vals⟩
  | _ => none

def parseMsg (s : String) : Option PMsg :=
  match s.splitOn "|" with
  | [id, fs] => do
      let fields ← if fs == "-" then some [] else (fs.splitOn ";").mapM parseField
      pure ⟨← id.toNat?, fields⟩
  | _ => none

def parseStore (s : String) : Option Store := if s == "-" then some [] else (s.splitOn "#").mapM parseMsg

def parseItem (s : String) : Option Item :=
  if s == "s" then some .sys else
  match s.toList with
  | 'm' :: r => (String.ofList r).toNat?.map .msg
  | _ => none
def parseColl (s : String) : Option (List Item) := if s == "-" then some [] else (s.splitOn ",").mapM parseItem

def parseDest (s : String) : Option (String × DestFacts) :=
  match s.splitOn "," with
  | [t, w, m, e, k, f, r, ik] => do pure (t, ⟨b w, b m, b e, b k, b f, b r, ← ik.toNat?⟩)
  | _ => none

def parseVal (s : String) : Option ValFacts :=
  if s == "nil" then some ⟨true, ⟨0, 0⟩, "", false, false, false, ⟨0, 0⟩, []⟩ else
  match s.splitOn "/" with
  | [slot, typ, st, it, ng, fresh, dests] => do
      let ds ← if dests == "-" then some [] else (dests.splitOn "&").mapM parseDest
      pure ⟨false, ← parseSlot slot, typ, b st, b it, b ng, ← parseSlot fresh, ds⟩
  | _ => none

def showStore (s : Store) : String :=
  if s.isEmpty then "-" else
  "#".intercalate (s.map fun m => toString m.id ++ "|" ++ ";".intercalate (m.fields.map fun f =>
    if f.vals.isEmpty then "-" else "+".intercalate (f.vals.map fun v => toString v.id)))

def showErr : Err → String
  | .invalidInput => "invalid-input" | .invalidField => "invalid-field" | .notSingleton => "not-singleton"
  | .notPatchable => "not-patchable" | .invalidEnum => "invalid-enum" | .invalidUnsignedInt => "invalid-unsigned-int"
  | .notImplemented => "not-implemented" | .evalError => "eval-error"

def showOut (r : Store × Outcome) : String :=
  (match r.2 with | .ok => "ok" | .err e => "err:" ++ showErr e) ++ " " ++ showStore r.1

def handle : List String → Option String
  | ["padd", store, camelOk, resNil, v, evalErr, result, snake] => do
      pure (showOut (addOp (← parseStore store) (b camelOk) (b resNil) (← parseVal v) (b evalErr) (← parseColl result) (← str? snake)))
  | ["pdel", store, resNil, evalErr, last, before, result] => do
      pure (showOut (deleteOp (← parseStore store) (b resNil) (b evalErr) (← parseColl last) (← parseColl before) (← parseColl result)))
  | ["pins", store, resNil, evalErr, last, result, v, idx] => do
      pure (showOut (insertOp (← parseStore store) (b resNil) (b evalErr) (← parseColl last) (← parseColl result) (← parseVal v) (← idx.toInt?)))
  | ["prep", store, resNil, evalErr, last, before, result, v] => do
      pure (showOut (replaceOp (← parseStore store) (b resNil) (b evalErr) (← parseColl last) (← parseColl before) (← parseColl result) (← parseVal v)))
  | ["pmove", store] => do pure (showOut (moveOp (← parseStore store)))
  | _ => none
where
  str? (h : String) : Option String := (unhexBytes h).bind fun bs => String.fromUTF8? (ByteArray.mk bs.toArray)

def handleRef : List String → Option String := fun _ => none

end FP.Drv.C18
