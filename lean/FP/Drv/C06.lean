import FP.Drv.Util
import FP.Model.Bool
import FP.Ref.Bool3
namespace FP.Drv.C06
open FP FP.Model

def parseItems (s : String) : Option (List BItem) :=
  if s = "-" then some [] else
  s.toList.mapM fun c => match c with
    | 't' => some (.bool true) | 'f' => some (.bool false) | 'o' => some .other | _ => none

def showBools (l : List Bool) : String :=
  if l.isEmpty then "-" else String.ofList (l.map fun b => if b then 't' else 'f')

def parseOp : String → Option BoolOp
  | "and" => some .and | "or" => some .or | "xor" => some .xor | "implies" => some .implies | _ => none

def handle : List String → Option String
  | ["bool", op, l, r] => do
      let op ← parseOp op; let l ← parseItems l; let r ← parseItems r
      pure (showRes showBools (boolExpr op l r))
  | ["not", l] => do
      let l ← parseItems l
      pure (showRes showBools (notFn l))
  | ["crit", l] => do
      let l ← parseItems l
      pure (showRes (fun b => if b then "t" else "f") (toBool l))
  | _ => none


def refOp (op : BoolOp) : Tri → Tri → Tri :=
  match op with | .and => Ref.and3 | .or => Ref.or3 | .xor => Ref.xor3 | .implies => Ref.implies3

def meaning (c : List BItem) : Option Tri :=
  Ref.meaningOf (c.map fun | .bool b => some b | .other => none)

/-- reference semantics (specification tables on operand meanings) for the same lines -/
def handleRef : List String → Option String
  | ["bool", op, l, r] => do
      let op ← parseOp op; let l ← parseItems l; let r ← parseItems r
      match meaning l, meaning r with
      | some a, some b => pure ("ok:" ++ showBools (refOp op a b).toList)
      | _, _ => pure "err:not-singleton"
  | ["not", l] => do
      let l ← parseItems l
      match meaning l with
      | some a => pure ("ok:" ++ showBools (Ref.not3 a).toList)
      | none => pure "err:not-singleton"
  | ["crit", l] => do
      let l ← parseItems l
      match meaning l with
      | some a => pure ("ok:" ++ (if a = some true then "t" else "f"))
      | none => pure "err:not-singleton"
  | _ => none

end FP.Drv.C06
