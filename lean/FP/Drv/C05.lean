import FP.Drv.Val
import FP.Model.Compare
namespace FP.Drv.C05
open FP FP.Model FP.Drv

def parseItem (s : String) : Option Item :=
  match s.toList with
  | 'P' :: rest => (parseVal (String.ofList rest)).map .prim
  | 'C' :: rest => some (.complex (String.ofList rest))
  | _ => none

def parseColl (s : String) : Option (List Item) :=
  if s == "-" then some [] else (s.splitOn ";").mapM parseItem

def parseOptVals (s : String) : Option (List (Option Val)) :=
  if s == "-" then some [] else (s.splitOn ";").mapM fun t =>
    if t == "N" then some none else match t.toList with
      | 'P' :: rest => (parseVal (String.ofList rest)).map some
      | _ => none

def showB (l : List Bool) : String := if l.isEmpty then "ok:-" else "ok:" ++ String.ofList (l.map fun b => if b then 't' else 'f')

def parseCmp : String → Option CmpOp
  | "lt" => some .lt | "gt" => some .gt | "le" => some .le | "ge" => some .ge | _ => none

def errClass : String → String
  | "ErrTypeMismatch" => "type-mismatch"
  | "ErrInvalidType" => "invalid-type"
  | e => e

def handle : List String → Option String
  | ["eq", n, l, r] => do pure (showB (eqExpr (n == "1") (← parseColl l) (← parseColl r)))
  | ["cmp", op, l, r] => do
      match cmpExpr (← parseCmp op) (← parseOptVals l) (← parseOptVals r) with
      | .ok b => pure (showB b)
      | .err e => pure ("err:" ++ errClass e)
      | .panic => pure "panic"
  | _ => none

/-- a number on one side and a quantity on the other: the recorded finding
    C05-number-quantity-promotion; the model follows the implementation there, so these lines are
    not part of the reference -/
def numberVsQuantity (l r : String) : Bool :=
  let isNum (s : String) := s.startsWith "PI:" || s.startsWith "PD:"
  let isQ (s : String) := s.startsWith "PQ:"
  (isNum l && isQ r) || (isQ l && isNum r)

/-- the property names a reference model of FHIRPath comparison: `Model.Compare` is that reference
    (single items and collections), so a line on which the implementation differs is a failing input -/
def handleRef : List String → Option String
  | ["eq", n, l, r] => if numberVsQuantity l r then none else handle ["eq", n, l, r]
  | ["cmp", op, l, r] => if numberVsQuantity l r then none else handle ["cmp", op, l, r]
  | _ => none

end FP.Drv.C05
