import FP.Drv.Util
import FP.Drv.C06
import FP.Model.Coll
namespace FP.Drv.C10
open FP FP.Model

/-- per-item criterion outcomes: `t;f;-;o;tt;E` -/
def parseOuts (s : String) : Option (List (Res (List BItem))) :=
  if s == "_" then some [] else
  (s.splitOn ";").mapM fun t => if t == "E" then some (.err "crit") else (FP.Drv.C06.parseItems t).map .ok

def showIdx0 (l : List Nat) : String := if l.isEmpty then "-" else ",".intercalate (l.map toString)

/-- `R:0,1,0` — for each position the first position holding an identical item -/
def parseRep (s : String) : Option (List Nat) :=
  match s.splitOn ":" with
  | ["R", "-"] => some []
  | ["R", l] => (l.splitOn ",").mapM (·.toNat?)
  | _ => none

/-- positions are printed through the representative map (identity of System values is not observable) -/
def showIdx (rep : List Nat) (l : List Nat) : String := showIdx0 (l.map fun i => rep.getD i i)

def enum {α : Type} (l : List α) : List (Nat × α) := (List.range l.length).zip l

def parseLens (s : String) : Option (List (Res (List Unit))) :=
  if s == "_" then some [] else
  (s.splitOn ";").mapM fun t => if t == "E" then some (.err "proj") else (t.toNat?).map fun n => .ok (List.replicate n ())

def bitAt (bits : String) (n i j : Nat) : Bool := (bits.toList.getD (i * n + j) '0') == '1'

def showB (r : Res Bool) : String :=
  match r with | .ok true => "ok:t" | .ok false => "ok:f" | .err _ => "err" | .panic => "panic"

def handle : List String → Option String
  | ["where", outs, rep] => do
      let os ← parseOuts outs; let rep ← parseRep rep
      match whereFn (fun (p : Nat × Res (List BItem)) => p.2) (enum os) with
      | .ok r => pure ("ok:" ++ showIdx rep (r.map (·.1)))
      | .err _ => pure "err"
      | .panic => pure "panic"
  | ["exists", outs] => do
      let os ← parseOuts outs
      pure (showB (existsFn (fun (p : Nat × Res (List BItem)) => p.2) (enum os)))
  | ["all", outs] => do
      let os ← parseOuts outs
      pure (showB (allFn (fun (p : Nat × Res (List BItem)) => p.2) (enum os)))
  | ["select", lens] => do
      let ls ← parseLens lens
      match selectFn (fun (p : Nat × Res (List Unit)) => p.2) (enum ls) with
      | .ok r => pure s!"ok:{r.length}"
      | .err _ => pure "err"
      | .panic => pure "panic"
  | ["take", k, n, rep] => do pure ("ok:" ++ showIdx (← parseRep rep) (takeFn (← k.toInt?) (List.range (← n.toNat?))))
  | ["skip", k, n, rep] => do pure ("ok:" ++ showIdx (← parseRep rep) (skipFn (← k.toInt?) (List.range (← n.toNat?))))
  | ["index", k, n, rep] => do pure ("ok:" ++ showIdx (← parseRep rep) (indexFn (← k.toInt?) (List.range (← n.toNat?))))
  | ["first", n, rep] => do pure ("ok:" ++ showIdx (← parseRep rep) (firstFn (List.range (← n.toNat?))))
  | ["last", n, rep] => do pure ("ok:" ++ showIdx (← parseRep rep) (lastFn (List.range (← n.toNat?))))
  | ["tail", n, rep] => do pure ("ok:" ++ showIdx (← parseRep rep) (tailFn (List.range (← n.toNat?))))
  | ["count", n] => do pure s!"ok:[I:{countFn (List.range (← n.toNat?))}]"
  | ["empty", n] => do pure (if emptyFn (List.range (← n.toNat?)) then "ok:t" else "ok:f")
  | ["distinct", n, bits, rep] => do
      let n ← n.toNat?
      pure ("ok:" ++ showIdx (← parseRep rep) (distinctFn (fun i j => bitAt bits n i j) (List.range n)))
  | ["isdistinct", n, bits] => do
      let n ← n.toNat?
      pure (if isDistinctFn (fun i j => bitAt bits n i j) (List.range n) then "ok:t" else "ok:f")
  | ["intersect", k, n, bits, rep] => do
      let k ← k.toNat?; let n ← n.toNat?; let rep ← parseRep rep
      let r := intersectFn (fun i j => bitAt bits n i j) (List.range k) ((List.range n).drop k)
      -- the harness names a primitive result by the first position holding an identical System value
      pure ("ok:" ++ showIdx rep r)
  | ["exclude", k, n, bits, rep] => do
      let k ← k.toNat?; let n ← n.toNat?
      pure ("ok:" ++ showIdx (← parseRep rep) (excludeFn (fun i j => bitAt bits n i j) (List.range k) ((List.range n).drop k)))
  | _ => none

def handleRef : List String → Option String := fun _ => none

end FP.Drv.C10
