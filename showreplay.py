#!/usr/bin/env python3
"""showreplay.py <prop> : print the newest replay file of a property in compact form"""
import json,glob,os,sys
fs=glob.glob(f'/verif/evidence/replay/{sys.argv[1]}-*.json')
f=max(fs,key=os.path.getmtime)
d=json.load(open(f))
print(f, d.get('kind'),d.get('klass'),d.get('law'))
print(' input:',d.get('input','')[:300]); print(' observed:',d.get('observed','')[:300])
seen={}
for m in d.get('more',[]):
    seen.setdefault(m.get('class'),[]).append(m)
for k,v in seen.items():
    for m in v[:4]: print(' ',k,'|',m.get('input','')[:170],'|',m.get('detail','')[:200])
print(' broken:',str(d.get('broken'))[:1500])
